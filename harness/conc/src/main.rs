//! Concurrent correspondence harness: runs a program (threads × commands over the public
//! API of arc-swap) on the real crate, built with `--cfg arc_swap_verif`, under a
//! controlled scheduler, and prints the trace (one line per atomic event) and the schedule.
//!
//! usage: conc <program> [--seed N] [--policy P] [--replay sched-file]
//!             [--trace-out f] [--sched-out f] [--stats-out f] [--max-steps N]

mod rt;

use std::collections::HashMap;
use std::sync::Mutex;

use arc_swap::cache::Cache;
use arc_swap::strategy::test_strategies::FillFastSlots;
use arc_swap::strategy::{CaS, Strategy};
use arc_swap::{ArcSwapAny, DefaultStrategy, Guard, RefCnt};

use rt::{log_line, with_world, yield_point, Pending, VPtr};

type T = Option<VPtr>;

#[derive(Clone, Debug)]
enum Src {
    Null,
    Handle(usize),
}

#[derive(Clone, Debug)]
enum Cmd {
    New(usize),
    /// a value whose destructor panics (C18)
    NewP(usize),
    Clone(usize, usize),
    Drop(usize),
    Load(usize, usize),
    LoadFull(usize, usize),
    GuardInto(usize, usize),
    Store(usize, Src),
    Swap(usize, Src, usize),
    Cas(usize, Src, Src, usize),
    Rcu(usize, String, usize),
    CInto(usize, usize),
    CDrop(usize),
    CacheNew(usize, usize),
    CacheLoad(usize),
    SetGen(usize),
    Move(usize, usize),
    Join(usize),
}

struct Program {
    fast: bool,
    inits: Vec<usize>,
    threads: Vec<Vec<Cmd>>,
}

fn parse_src(w: &str) -> Src {
    if w == "-" {
        Src::Null
    } else {
        Src::Handle(w.parse().unwrap())
    }
}

fn parse_cmd(s: &str) -> Cmd {
    let w: Vec<&str> = s.split_whitespace().collect();
    let n = |i: usize| -> usize { w[i].parse().unwrap() };
    match w[0] {
        "new" => Cmd::New(n(1)),
        "newp" => Cmd::NewP(n(1)),
        "clone" => Cmd::Clone(n(1), n(2)),
        "drop" => Cmd::Drop(n(1)),
        "load" => Cmd::Load(n(1), n(2)),
        "loadfull" => Cmd::LoadFull(n(1), n(2)),
        "ginto" => Cmd::GuardInto(n(1), n(2)),
        "store" => Cmd::Store(n(1), parse_src(w[2])),
        "swap" => Cmd::Swap(n(1), parse_src(w[2]), n(3)),
        "cas" => Cmd::Cas(n(1), parse_src(w[2]), parse_src(w[3]), n(4)),
        "rcu" => Cmd::Rcu(n(1), w[2].to_string(), n(3)),
        "cinto" => Cmd::CInto(n(1), n(2)),
        "cdrop" => Cmd::CDrop(n(1)),
        "cachenew" => Cmd::CacheNew(n(1), n(2)),
        "cacheload" => Cmd::CacheLoad(n(1)),
        "setgen" => Cmd::SetGen(n(1)),
        "move" => Cmd::Move(n(1), n(2)),
        "join" => Cmd::Join(n(1)),
        _ => panic!("bad command {}", s),
    }
}

fn parse_program(text: &str) -> Program {
    let mut p = Program {
        fast: true,
        inits: vec![],
        threads: vec![],
    };
    for line in text.lines() {
        let line = line.trim();
        if line.is_empty() || line.starts_with('#') {
            continue;
        }
        if let Some(rest) = line.strip_prefix("config") {
            for kv in rest.split_whitespace() {
                if kv == "fast=0" {
                    p.fast = false;
                }
            }
        } else if let Some(rest) = line.strip_prefix("init") {
            p.inits = rest.split_whitespace().map(|x| x.parse().unwrap()).collect();
        } else if line.starts_with("thread") {
            let i = line.find(':').unwrap();
            let cmds = line[i + 1..]
                .split(';')
                .filter(|c| !c.trim().is_empty())
                .map(parse_cmd)
                .collect();
            p.threads.push(cmds);
        } else {
            panic!("bad line {}", line);
        }
    }
    p
}

enum Handle<S: Strategy<T> + 'static> {
    Empty,
    Owned(T),
    Guard(Guard<T, S>),
    Cache(Cache<&'static ArcSwapAny<T, S>, T>),
}

struct Tables<S: Strategy<T> + 'static> {
    handles: Mutex<Vec<Handle<S>>>,
    containers: Mutex<Vec<Option<&'static ArcSwapAny<T, S>>>>,
}

const NHANDLES: usize = 512;

fn addr_of(v: &T) -> usize {
    <T as RefCnt>::as_ptr(v) as usize
}

/// What the scheduler needs to decide whether a command may start: the kinds of the handles.
#[derive(Clone, Copy, PartialEq, Eq, Debug)]
enum HKind {
    Empty,
    Owned,
    Guard,
    Cache,
}

static HKINDS: Mutex<Vec<HKind>> = Mutex::new(Vec::new());

fn set_kind(h: usize, k: HKind) {
    HKINDS.lock().unwrap()[h] = k;
}
fn kind(h: usize) -> HKind {
    HKINDS.lock().unwrap()[h]
}

fn cmd_enabled(c: &Cmd) -> bool {
    let src_owned = |s: &Src| match s {
        Src::Null => true,
        Src::Handle(h) => kind(*h) == HKind::Owned,
    };
    match c {
        Cmd::Clone(h, _) => matches!(kind(*h), HKind::Owned | HKind::Guard),
        Cmd::Drop(h) | Cmd::Move(h, _) => kind(*h) != HKind::Empty,
        Cmd::GuardInto(h, _) => kind(*h) == HKind::Guard,
        Cmd::Store(_, v) | Cmd::Swap(_, v, _) => src_owned(v),
        Cmd::Cas(_, cur, new, _) => {
            (match cur {
                Src::Null => true,
                Src::Handle(h) => matches!(kind(*h), HKind::Owned | HKind::Guard),
            }) && src_owned(new)
        }
        Cmd::CacheLoad(k) => kind(*k) == HKind::Cache,
        _ => true,
    }
}

impl<S> Tables<S>
where
    S: Strategy<T> + CaS<T> + Default + Send + Sync + 'static,
    Guard<T, S>: Send,
{
    fn take(&self, h: usize) -> Handle<S> {
        set_kind(h, HKind::Empty);
        std::mem::replace(&mut self.handles.lock().unwrap()[h], Handle::Empty)
    }
    fn put(&self, h: usize, v: Handle<S>) {
        set_kind(
            h,
            match v {
                Handle::Empty => HKind::Empty,
                Handle::Owned(_) => HKind::Owned,
                Handle::Guard(_) => HKind::Guard,
                Handle::Cache(_) => HKind::Cache,
            },
        );
        self.handles.lock().unwrap()[h] = v;
    }
    /// Borrows a handle in place. The table never reallocates and the generator makes sure
    /// nobody else touches the handle meanwhile (the handle stays visible in the final dump).
    #[allow(clippy::mut_from_ref)]
    fn borrow(&self, h: usize) -> &mut Handle<S> {
        let p: *mut Handle<S> = &mut self.handles.lock().unwrap()[h];
        unsafe { &mut *p }
    }
    fn container(&self, c: usize) -> &'static ArcSwapAny<T, S> {
        self.containers.lock().unwrap()[c].expect("container gone")
    }
    fn take_src(&self, s: &Src) -> T {
        match s {
            Src::Null => None,
            Src::Handle(h) => match self.take(*h) {
                Handle::Owned(v) => v,
                _ => panic!("harness: source handle is not owned"),
            },
        }
    }

    /// Executes one command; returns the RET annotation.
    fn exec(&self, cmd: &Cmd) -> String {
        match cmd {
            Cmd::New(h) => {
                let v = Some(VPtr::new());
                let a = addr_of(&v);
                self.put(*h, Handle::Owned(v));
                format!("O {}", a)
            }
            Cmd::NewP(h) => {
                let p = VPtr::new();
                p.set_panic_on_destroy();
                let v = Some(p);
                let a = addr_of(&v);
                self.put(*h, Handle::Owned(v));
                format!("O {}", a)
            }
            Cmd::Clone(h, h2) => {
                let src = self.borrow(*h);
                let v: T = match src {
                    Handle::Owned(v) => v.clone(),
                    Handle::Guard(g) => T::clone(g),
                    _ => panic!("harness: clone of a bad handle"),
                };
                let a = addr_of(&v);
                self.put(*h2, Handle::Owned(v));
                format!("O {}", a)
            }
            Cmd::Drop(h) => {
                drop(self.take(*h));
                "U".into()
            }
            Cmd::Load(c, h) => {
                let g = self.container(*c).load();
                let a = addr_of(&g);
                self.put(*h, Handle::Guard(g));
                format!("G {}", a)
            }
            Cmd::LoadFull(c, h) => {
                let v = self.container(*c).load_full();
                let a = addr_of(&v);
                self.put(*h, Handle::Owned(v));
                format!("O {}", a)
            }
            Cmd::GuardInto(h, h2) => {
                let g = match self.take(*h) {
                    Handle::Guard(g) => g,
                    _ => panic!("harness: ginto of a non-guard"),
                };
                let v = Guard::into_inner(g);
                let a = addr_of(&v);
                self.put(*h2, Handle::Owned(v));
                format!("O {}", a)
            }
            Cmd::Store(c, v) => {
                let v = self.take_src(v);
                self.container(*c).store(v);
                "U".into()
            }
            Cmd::Swap(c, v, h2) => {
                let v = self.take_src(v);
                let old = self.container(*c).swap(v);
                let a = addr_of(&old);
                self.put(*h2, Handle::Owned(old));
                format!("O {}", a)
            }
            Cmd::Cas(c, cur, new, h2) => {
                let new = self.take_src(new);
                let cs = self.container(*c);
                let g = match cur {
                    Src::Null => cs.compare_and_swap(&None::<VPtr>, new),
                    Src::Handle(h) => match self.borrow(*h) {
                        Handle::Owned(v) => cs.compare_and_swap(&*v, new),
                        Handle::Guard(gd) => cs.compare_and_swap(&**gd, new),
                        _ => panic!("harness: cas current is a bad handle"),
                    },
                };
                let a = addr_of(&g);
                self.put(*h2, Handle::Guard(g));
                format!("G {}", a)
            }
            Cmd::Rcu(c, mode, h2) => {
                let cs = self.container(*c);
                let old = match mode.as_str() {
                    "new" => cs.rcu(|_cur| Some(VPtr::new())),
                    "null" => cs.rcu(|_cur| None::<VPtr>),
                    "same" => cs.rcu(|cur| T::clone(cur)),
                    m if m.starts_with("panic") => {
                        // the closure allocates on attempts < k and panics on attempt k (C18)
                        let k: usize = m[5..].parse().unwrap();
                        let attempt = std::cell::Cell::new(0usize);
                        let r = std::panic::catch_unwind(std::panic::AssertUnwindSafe(|| {
                            cs.rcu(|_cur| {
                                let a = attempt.get();
                                attempt.set(a + 1);
                                if a == k {
                                    panic!("harness: expected user panic in the rcu closure");
                                }
                                Some(VPtr::new())
                            })
                        }));
                        match r {
                            Ok(v) => v,
                            Err(_) => return "P".into(),
                        }
                    }
                    _ => panic!("harness: rcu mode"),
                };
                let a = addr_of(&old);
                self.put(*h2, Handle::Owned(old));
                format!("O {}", a)
            }
            Cmd::CInto(c, h) => {
                let cs = self.containers.lock().unwrap()[*c].take().expect("container gone");
                let boxed = unsafe { Box::from_raw(cs as *const _ as *mut ArcSwapAny<T, S>) };
                let v = boxed.into_inner();
                let a = addr_of(&v);
                self.put(*h, Handle::Owned(v));
                format!("O {}", a)
            }
            Cmd::CDrop(c) => {
                let cs = self.containers.lock().unwrap()[*c].take().expect("container gone");
                let boxed = unsafe { Box::from_raw(cs as *const _ as *mut ArcSwapAny<T, S>) };
                drop(boxed);
                "U".into()
            }
            Cmd::CacheNew(c, k) => {
                let cache = Cache::new(self.container(*c));
                self.put(*k, Handle::Cache(cache));
                // The cached pointer is private until the next load(); the trace comparison
                // treats `?` as a wildcard.
                "O ?".into()
            }
            Cmd::CacheLoad(k) => {
                let a = match self.borrow(*k) {
                    Handle::Cache(cache) => addr_of(cache.load()),
                    _ => panic!("harness: cacheload of a non-cache"),
                };
                format!("O {}", a)
            }
            Cmd::Move(h, h2) => {
                let v = self.take(*h);
                self.put(*h2, v);
                "U".into()
            }
            Cmd::Join(j) => {
                // joining synchronises: everything the joined thread had seen is visible from now on
                if let Some(me) = rt::vtid() {
                    rt::with_world(|w| {
                        let theirs: Vec<(usize, usize)> = w.view.iter().filter(|((t, _), _)| *t == *j).map(|((_, a), &i)| (*a, i)).collect();
                        for (a, i) in theirs {
                            let e = w.view.entry((me, a)).or_insert(0);
                            if *e < i {
                                *e = i;
                            }
                        }
                    });
                }
                "U".into()
            }
            Cmd::SetGen(g) => {
                arc_swap::verif::set_generation(*g);
                "U".into()
            }
        }
    }
}

static OUT: Mutex<Option<Outputs>> = Mutex::new(None);

type FinalDump = Box<dyn Fn() -> Vec<String> + Send>;
static FINAL: Mutex<Option<FinalDump>> = Mutex::new(None);

struct Outputs {
    trace_out: Option<String>,
    sched_out: Option<String>,
    stats_out: Option<String>,
    sched: Vec<(usize, u64)>,
}

/// Writes the trace, schedule and statistics and terminates the process.
pub fn dump_and_exit(code: i32) -> ! {
    if code == 0 || code == 5 {
        // Nobody runs any more: dump the final state for comparison with the model's.
        let lines = match FINAL.lock().unwrap_or_else(|e| e.into_inner()).as_ref() {
            Some(f) => f(),
            None => vec![],
        };
        with_world(|w| w.log.extend(lines));
    }
    let (log, stats, steps) = {
        let g = rt::WORLD.lock().unwrap_or_else(|e| e.into_inner());
        let w = g.as_ref().unwrap();
        (w.log.clone(), w.stats.clone(), w.steps)
    };
    let out = OUT.lock().unwrap_or_else(|e| e.into_inner());
    let out = out.as_ref().unwrap();
    let mut text = log.join("\n");
    text.push('\n');
    match &out.trace_out {
        Some(f) => std::fs::write(f, text).unwrap(),
        None => print!("{}", text),
    }
    if let Some(f) = &out.sched_out {
        let s: String = out.sched.iter().map(|(t, x)| format!("{} {}\n", t, x)).collect();
        std::fs::write(f, s).unwrap();
    }
    if let Some(f) = &out.stats_out {
        let mut s = format!("steps {}\nexit {}\n", steps, code);
        let mut keys: Vec<_> = stats.keys().collect();
        keys.sort();
        for k in keys {
            s.push_str(&format!("{} {}\n", k, stats[k]));
        }
        std::fs::write(f, s).unwrap();
    }
    rt::EXITING.store(true, std::sync::atomic::Ordering::SeqCst);
    std::process::exit(code);
}

struct Rng(u64);
impl Rng {
    fn next(&mut self) -> u64 {
        // splitmix64
        self.0 = self.0.wrapping_add(0x9E3779B97F4A7C15);
        let mut z = self.0;
        z = (z ^ (z >> 30)).wrapping_mul(0xBF58476D1CE4E5B9);
        z = (z ^ (z >> 27)).wrapping_mul(0x94D049BB133111EB);
        z ^ (z >> 31)
    }
    fn below(&mut self, n: u64) -> u64 {
        self.next() % n
    }
}

fn canonical_panic(msg: &str, loc: &str) -> String {
    let known = [
        ("ensures it is set", "ExpectNode"),
        ("Left control in wrong state", "CtrlNotIdle"),
        ("Refusing to help myself", "HelpMyself"),
        ("Invalid control value", "InvalidControl"),
    ];
    for (pat, name) in known {
        if msg.contains(pat) {
            return name.to_string();
        }
    }
    format!("Other {} {}", loc, msg.replace('\n', " "))
}

fn run<S>(prog: Program, args: &HashMap<String, String>)
where
    S: Strategy<T> + CaS<T> + Default + Send + Sync + 'static,
    Guard<T, S>: Send,
{
    let nthreads = prog.threads.len();
    rt::init_world(nthreads);
    *HKINDS.lock().unwrap() = vec![HKind::Empty; NHANDLES];

    // Containers and their initial values (created by the main thread: no scheduling).
    let mut handles = Vec::new();
    for _ in 0..NHANDLES {
        handles.push(Handle::Empty);
    }
    let tables: &'static Tables<S> = Box::leak(Box::new(Tables {
        handles: Mutex::new(handles),
        containers: Mutex::new(Vec::new()),
    }));
    {
        let mut made: HashMap<usize, VPtr> = HashMap::new();
        for &a in &prog.inits {
            let v: T = if a == 0 {
                None
            } else if let Some(p) = made.get(&a) {
                Some(p.clone())
            } else {
                // Force the address asked for by the program.
                let k = rt::cell_of_addr(a).expect("init address");
                let p = with_world(|w| {
                    assert!(!w.cells[k].alive);
                    let oid = w.next_oid;
                    w.next_oid += 1;
                    w.cells[k].alive = true;
                    w.cells[k].count = 1;
                    w.cells[k].oid = oid;
                    VPtr(a)
                });
                made.insert(a, VPtr(a));
                Some(p)
            };
            let cs: &'static ArcSwapAny<T, S> = Box::leak(Box::new(ArcSwapAny::with_strategy(v, S::default())));
            with_world(|w| w.storages.push(cs.verif_storage_addr()));
            tables.containers.lock().unwrap().push(Some(cs));
        }
        for (_, p) in made {
            std::mem::forget(p);
        }
    }

    let consumed: Vec<usize> = prog
        .threads
        .iter()
        .flatten()
        .filter_map(|c| match c {
            Cmd::CInto(c, _) | Cmd::CDrop(c) => Some(*c),
            _ => None,
        })
        .collect();
    let ncont = prog.inits.len();
    *FINAL.lock().unwrap() = Some(Box::new(move || {
        let mut out = Vec::new();
        for c in 0..ncont {
            if consumed.contains(&c) {
                continue;
            }
            let a = with_world(|w| w.storages[c]);
            out.push(format!(". FINAL store {} {}", c, unsafe { arc_swap::verif::peek(a) }));
        }
        with_world(|w| {
            for (k, cell) in w.cells.iter().enumerate() {
                if cell.alive {
                    out.push(format!(". FINAL cell {} {} {}", rt::addr_of_cell(k), cell.count, cell.oid));
                }
            }
        });
        {
            let hs = tables.handles.lock().unwrap_or_else(|e| e.into_inner());
            for (h, v) in hs.iter().enumerate() {
                match v {
                    Handle::Empty => (),
                    Handle::Owned(v) => out.push(format!(". FINAL handle {} O {}", h, addr_of(v))),
                    Handle::Guard(g) => out.push(format!(". FINAL handle {} G {}", h, addr_of(g))),
                    Handle::Cache(_) => out.push(format!(". FINAL handle {} C ?", h)),
                }
            }
        }
        let nodes = arc_swap::verif::nodes();
        let peek = |a: usize| unsafe { arc_swap::verif::peek(a) };
        for (n, nd) in nodes.iter().enumerate() {
            for (i, &a) in nd.fast.iter().enumerate() {
                if peek(a) != 3 {
                    out.push(format!(". FINAL slot {} {} {}", n, i, peek(a)));
                }
            }
            if peek(nd.slot) != 3 {
                out.push(format!(". FINAL slot {} 8 {}", n, peek(nd.slot)));
            }
            let offer = peek(nd.space_offer);
            let offer = nodes.iter().position(|x| x.handover == offer).map(|e| 4 * (e + 1)).unwrap_or(0);
            let ctrl = peek(nd.control);
            let ctrl = if ctrl & 3 == 1 {
                nodes.iter().position(|x| x.handover == ctrl & !3).map(|e| 4 * (e + 1) + 1).unwrap_or(1)
            } else {
                ctrl
            };
            out.push(format!(". FINAL node {} {} {} {} {}", n, peek(nd.in_use), peek(nd.active_writers), ctrl, offer));
        }
        out
    }));

    std::panic::set_hook(Box::new(|info| {
        let msg = if let Some(s) = info.payload().downcast_ref::<&str>() {
            s.to_string()
        } else if let Some(s) = info.payload().downcast_ref::<String>() {
            s.clone()
        } else {
            "?".to_string()
        };
        let loc = info
            .location()
            .map(|l| format!("{}:{}", l.file(), l.line()))
            .unwrap_or_default();
        if msg.starts_with("harness: expected user panic") {
            return;
        }
        if rt::vtid().is_some() {
            log_line(format!(". PANIC {}", canonical_panic(&msg, &loc)));
            dump_and_exit(4);
        } else {
            eprintln!("harness panic (scheduler thread): {} at {}", msg, loc);
            log_line(format!(". HARNESS-ERROR {} {}", loc, msg.replace('\n', " ")));
            dump_and_exit(7);
        }
    }));

    // Spawn the virtual threads and a reaper for each (join returns only after the thread,
    // including its TLS destructors, is gone).
    let threads = std::sync::Arc::new(prog.threads);
    for t in 0..nthreads {
        let threads = threads.clone();
        let h = std::thread::Builder::new()
            .name(format!("v{}", t))
            .spawn(move || {
                rt::register_thread(t);
                for (k, cmd) in threads[t].iter().enumerate() {
                    yield_point(t, Pending::Cmd(k));
                    with_world(|w| w.cur_cmd[t] = k);
                    log_line(format!("{} CMD {}", t, k));
                    // user code (a pointee destructor) may panic inside an operation: the harness
                    // catches the unwind like a caller would and goes on with the next command
                    let ret = match std::panic::catch_unwind(std::panic::AssertUnwindSafe(|| tables.exec(cmd))) {
                        Ok(r) => r,
                        Err(_) => "P".into(),
                    };
                    log_line(format!(". RET {} {}", k, ret));
                }
                yield_point(t, Pending::Exit);
                log_line(format!("{} EXIT", t));
            })
            .unwrap();
        std::thread::spawn(move || {
            let _ = h.join();
            with_world(|w| w.finished[t] = true);
            rt::CV.notify_all();
        });
    }

    // The scheduler.
    let replay: Option<Vec<(usize, u64)>> = args.get("--replay").map(|f| {
        std::fs::read_to_string(f)
            .unwrap()
            .lines()
            .filter(|l| !l.trim().is_empty())
            .map(|l| {
                let w: Vec<&str> = l.split_whitespace().collect();
                (w[0].parse().unwrap(), w[1].parse().unwrap())
            })
            .collect()
    });
    let seed: u64 = args.get("--seed").map(|s| s.parse().unwrap()).unwrap_or(1);
    let max_steps: u64 = args.get("--max-steps").map(|s| s.parse().unwrap()).unwrap_or(20000);
    let policy = args.get("--policy").cloned().unwrap_or_else(|| "sticky".into());
    let mut rng = Rng(seed);
    let stick = 5 + rng.below(90); // percent chance to keep running the same thread
    let spur = if policy == "spurious" { 25 } else { 2 };
    let mut last: Option<usize> = None;
    let mut step_no: usize = 0;
    // script policy: "script:<t>x<n>,<t>x<n>,..." = run thread t for n steps (0: until it
    // blocks or finishes), then the next entry; afterwards the lowest enabled thread.
    let (policy_main, solo): (String, Option<usize>) = match policy.split_once(";solo=") {
        Some((a, b)) => (a.to_string(), Some(b.parse().unwrap())),
        None => (policy.clone(), None),
    };
    let policy = policy_main;
    let script: Vec<(usize, u64)> = match policy.strip_prefix("script:") {
        Some(sp) => sp
            .split(',')
            .filter(|e| !e.is_empty())
            .map(|e| {
                let (a, b) = e.split_once('x').expect("script entry");
                (a.parse().unwrap(), b.parse().unwrap())
            })
            .collect(),
        None => vec![],
    };
    let is_script = policy.starts_with("script:");
    // chase policy: "chase:<reader>:<writer>" = an adversary for wait-freedom (C08): the reader runs
    // until it has just read a storage location, then the writer runs until it has completed a
    // command that wrote the storage, and so on.
    let chase: Option<(usize, usize)> = policy.strip_prefix("chase:").map(|sp| {
        let (a, b) = sp.split_once(':').expect("chase:<reader>:<writer>");
        (a.parse().unwrap(), b.parse().unwrap())
    });
    let mut chase_writer = false;
    let mut chase_saw_write = false;
    let mut sidx = 0usize;
    let mut sused = 0u64;
    let mut solo_cmd: Option<usize> = None;
    let mut solo_steps = 0u64;
    // pct: random priorities, changed at a few random points
    let mut prio: Vec<u64> = (0..nthreads).map(|_| rng.next()).collect();
    let change_every = 10 + rng.below(40);

    loop {
        let mut g = rt::WORLD.lock().unwrap_or_else(|e| e.into_inner());
        loop {
            let w = g.as_ref().unwrap();
            if (0..nthreads).all(|i| w.parked[i].is_some() || w.finished[i]) {
                break;
            }
            g = rt::CV.wait(g).unwrap_or_else(|e| e.into_inner());
        }
        let w = g.as_mut().unwrap();
        let enabled: Vec<usize> = (0..nthreads)
            .filter(|&i| match &w.parked[i] {
                None => false,
                Some(Pending::Cmd(k)) => match &threads[i][*k] {
                    Cmd::Join(j) => w.finished[*j],
                    c => cmd_enabled(c),
                },
                Some(_) => true,
            })
            .collect();
        if enabled.is_empty() {
            let stuck = (0..nthreads).any(|i| w.parked[i].is_some());
            if stuck {
                w.log.push(". DEADLOCK".into());
            }
            drop(g);
            dump_and_exit(if stuck { 5 } else { 0 });
        }
        if w.steps >= max_steps {
            w.log.push(". LIMIT".into());
            drop(g);
            dump_and_exit(5);
        }
        let (t, x) = match &replay {
            Some(r) => {
                if step_no >= r.len() {
                    w.log.push(". REPLAY-END".into());
                    drop(g);
                    dump_and_exit(0);
                }
                let (t, x) = r[step_no];
                if !enabled.contains(&t) {
                    w.log.push(format!(". REPLAY-DIVERGED step {} thread {} not enabled", step_no, t));
                    drop(g);
                    dump_and_exit(6);
                }
                (t, x)
            }
            None => {
                let t = match policy.as_str() {
                    _ if is_script => {
                        let mut pick = None;
                        while sidx < script.len() {
                            let (st, sn) = script[sidx];
                            if enabled.contains(&st) && (sn == 0 || sused < sn) {
                                pick = Some(st);
                                sused += 1;
                                break;
                            }
                            sidx += 1;
                            sused = 0;
                        }
                        match (pick, solo) {
                            (Some(t), _) => t,
                            (None, None) => enabled[0],
                            (None, Some(v)) => {
                                // solo phase: only thread v runs, until its current command is done
                                let done = match (&w.parked[v], solo_cmd) {
                                    (Some(Pending::Cmd(k)), Some(k0)) => *k != k0,
                                    (Some(Pending::Exit), _) => true,
                                    (None, _) => true,
                                    _ => false,
                                };
                                if solo_cmd.is_none() {
                                    solo_cmd = Some(match &w.parked[v] {
                                        Some(Pending::Cmd(k)) => *k,
                                        _ => w.cur_cmd[v],
                                    });
                                }
                                if done || !enabled.contains(&v) {
                                    // A thread inside an operation is always enabled (every atomic access
                                    // is); it can only be disabled at a command boundary, waiting for a
                                    // handle another thread of the PROGRAM produces or for a join: that is
                                    // a dependency of the test program, not the library waiting.
                                    let at_cmd = matches!(&w.parked[v], Some(Pending::Cmd(_)));
                                    if !done && !at_cmd {
                                        w.log.push(format!(". SOLO-BLOCKED thread {} cannot proceed alone", v));
                                    } else {
                                        w.log.push(". SOLO-DONE".into());
                                    }
                                    drop(g);
                                    dump_and_exit(if done || at_cmd { 0 } else { 5 });
                                }
                                solo_steps += 1;
                                if solo_steps > 3000 {
                                    w.log.push(format!(". SOLO-LIMIT thread {} did not finish its operation in 3000 own steps running alone", v));
                                    drop(g);
                                    dump_and_exit(5);
                                }
                                v
                            }
                        }
                    }
                    _ if chase.is_some() => {
                        let (r, wr) = chase.unwrap();
                        let is_storage = |l: &str, me: usize, ops: &[&str]| {
                            let f: Vec<&str> = l.split_whitespace().collect();
                            f.len() > 3 && f[0] == me.to_string() && f[1] == "ACC" && f[2].starts_with('S')
                                && f[2][1..].chars().all(|c| c.is_ascii_digit()) && ops.contains(&f[3])
                        };
                        if !chase_writer {
                            // did the reader just read a storage location?
                            let last_r = w.log.iter().rev().find(|l| l.starts_with(&format!("{} ", r)));
                            if let Some(l) = last_r {
                                if is_storage(l, r, &["load"]) && enabled.contains(&wr) {
                                    chase_writer = true;
                                    chase_saw_write = false;
                                }
                            }
                        } else {
                            let last_w = w.log.iter().rev().find(|l| l.starts_with(&format!("{} ", wr)));
                            if let Some(l) = last_w {
                                if is_storage(l, wr, &["swap", "cas", "casw"]) {
                                    chase_saw_write = true;
                                }
                            }
                            let at_boundary = matches!(&w.parked[wr], Some(Pending::Cmd(_)) | Some(Pending::Exit) | None);
                            if (chase_saw_write && at_boundary) || !enabled.contains(&wr) {
                                chase_writer = false;
                            }
                        }
                        let want = if chase_writer { wr } else { r };
                        if enabled.contains(&want) { want } else if enabled.contains(&wr) { wr } else { enabled[0] }
                    }
                    "pct" => {
                        if step_no as u64 % change_every == 0 {
                            let i = rng.below(nthreads as u64) as usize;
                            prio[i] = rng.next();
                        }
                        *enabled.iter().max_by_key(|&&i| prio[i]).unwrap()
                    }
                    _ => match last {
                        Some(l) if enabled.contains(&l) && rng.below(100) < stick => l,
                        _ => enabled[rng.below(enabled.len() as u64) as usize],
                    },
                };
                let x = match &w.parked[t] {
                    Some(Pending::Acc { weak: true, .. }) => {
                        if !is_script && rng.below(100) < spur {
                            1
                        } else {
                            0
                        }
                    }
                    Some(Pending::Acc { stale: Some(site), .. }) if policy == "stale" || policy == "stale2" || policy == "stale3" => {
                        // answer the load with a value the location held earlier
                        match *site {
                            rt::StaleSite::First(c) => match w.store_hist.get(c) {
                                Some(h) if !h.is_empty() && rng.below(100) < 60 => 2 + h[rng.below(h.len() as u64) as usize] as u64,
                                _ => 0,
                            },
                            _ if policy == "stale" => 0,
                            rt::StaleSite::Cache(a) => {
                                if policy == "stale3" { stale_choice(w, t, a, true, &mut rng) } else { 0 }
                            }
                            rt::StaleSite::Scan(a) | rt::StaleSite::InUse(a) => stale_choice(w, t, a, matches!(*site, rt::StaleSite::Scan(_)), &mut rng),
                            rt::StaleSite::Head => stale_choice(w, t, w.head_addr, false, &mut rng),
                        }
                    }
                    Some(Pending::Alloc) => {
                        // Prefer the most recently freed cell (provokes address reuse).
                        let free: Vec<usize> = (0..rt::ARENA_CELLS).filter(|&k| !w.cells[k].alive).collect();
                        assert!(!free.is_empty(), "arena full");
                        let recent = free.iter().copied().filter(|&k| w.cells[k].freed_at > 0).max_by_key(|&k| w.cells[k].freed_at);
                        let k = match recent {
                            Some(k) if is_script || rng.below(100) < 70 => k,
                            _ => free[if is_script { 0 } else { rng.below(free.len().min(4) as u64) as usize }],
                        };
                        rt::addr_of_cell(k) as u64
                    }
                    _ => 0,
                };
                (t, x)
            }
        };
        w.steps += 1;
        w.grant[t] = Some(x);
        w.parked[t] = None;
        OUT.lock().unwrap().as_mut().unwrap().sched.push((t, x));
        last = Some(t);
        step_no += 1;
        drop(g);
        rt::CV.notify_all();
    }
}

/// A stale value for a load of thread `t` at address `a`: one of the writes between the newest
/// this thread has seen (read, or written itself) and the latest one, as the model's value + 2;
/// 0 = read the memory.  A thread that never touched the location may see any earlier write
/// (the look of check_cooldown at another thread's node).  `scan`: the slot scan never sees a
/// slot empty that is not (the empty marker is only written over a value of the owner).
fn stale_choice(w: &rt::World, t: usize, a: usize, scan: bool, rng: &mut Rng) -> u64 {
    let h = match w.loc_hist.get(&a) {
        Some(h) if h.len() >= 2 => h,
        _ => return 0,
    };
    let lo = match w.view.get(&(t, a)) {
        Some(&i) => i,
        None if scan => return 0,
        None => 0,
    };
    let cur = h[h.len() - 1].1;
    let cands: Vec<u64> = (lo..h.len() - 1).map(|i| h[i].1).filter(|&v| v != u64::MAX && v != cur && !(scan && v == 3)).collect();
    if cands.is_empty() || rng.below(100) >= 60 {
        0
    } else {
        2 + cands[rng.below(cands.len() as u64) as usize]
    }
}

fn main() {
    let argv: Vec<String> = std::env::args().collect();
    if argv.len() < 2 {
        eprintln!("usage: conc <program> [--seed N] [--policy sticky|pct|spurious] [--replay f] [--trace-out f] [--sched-out f] [--stats-out f]");
        std::process::exit(2);
    }
    let mut args = HashMap::new();
    let mut i = 2;
    while i + 1 < argv.len() {
        args.insert(argv[i].clone(), argv[i + 1].clone());
        i += 2;
    }
    *OUT.lock().unwrap() = Some(Outputs {
        trace_out: args.get("--trace-out").cloned(),
        sched_out: args.get("--sched-out").cloned(),
        stats_out: args.get("--stats-out").cloned(),
        sched: vec![],
    });
    let prog = parse_program(&std::fs::read_to_string(&argv[1]).unwrap());
    if prog.fast {
        run::<DefaultStrategy>(prog, &args);
    } else {
        run::<FillFastSlots>(prog, &args);
    }
}
