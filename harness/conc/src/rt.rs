//! Run-time of the concurrent harness: baton-passing scheduler over real OS threads, the
//! arena of reference-counted objects (`VPtr`), the hooks installed into the crate's
//! instrumented atomics, canonicalisation of addresses and the trace log.

use std::collections::HashMap;
use std::sync::atomic::Ordering;
use std::sync::{Condvar, Mutex};

use arc_swap::verif::{self, Access, Decision, Hooks, Op};
use arc_swap::RefCnt;

extern "C" {
    fn pthread_self() -> usize;
}

pub const ARENA_BASE: usize = 0x1000;
pub const ARENA_STEP: usize = 16;
pub const ARENA_CELLS: usize = 200;

#[derive(Clone, Debug)]
pub enum Pending {
    /// About to start command `k`; the scheduler decides whether it is enabled.
    Cmd(usize),
    /// Atomic access; `weak` = compare_exchange_weak (may be failed spuriously); `stale` = a load that
    /// is not SeqCst and whose value the protocol does not trust (first read of the fast path, slot
    /// scan, in_use look of check_cooldown, head read before the push loop): may be answered with an
    /// older value of the location.
    Acc { weak: bool, stale: Option<StaleSite> },
    Rc,
    Alloc,
    Exit,
}

#[derive(Clone, Copy, Debug, PartialEq, Eq)]
pub enum StaleSite {
    /// First read of `HybridProtection::attempt` (container index).
    First(usize),
    /// `Slots::get_debt` scan (address of the slot).
    Scan(usize),
    /// `Node::check_cooldown`, the look at `in_use` (address).
    InUse(usize),
    /// `LIST_HEAD.load(Relaxed)` before the push loop.
    Head,
    /// `Cache::revalidate`, the Relaxed read of the storage (address). Its value IS trusted.
    Cache(usize),
}

pub struct Cell {
    pub alive: bool,
    pub count: usize,
    pub oid: u64,
    /// Logical time of the last release (for the allocation policy).
    pub freed_at: u64,
    /// The "destructor" of this object panics (C18: user code panicking inside the library).
    pub panic_on_destroy: bool,
}

pub struct World {
    pub nthreads: usize,
    pub parked: Vec<Option<Pending>>,
    pub grant: Vec<Option<u64>>,
    pub finished: Vec<bool>,
    pub tids: HashMap<usize, usize>,
    pub cells: Vec<Cell>,
    pub next_oid: u64,
    pub clock: u64,
    pub log: Vec<String>,
    pub storages: Vec<usize>,
    /// Values each storage held before (what writers replaced): candidates for a stale Relaxed read.
    pub store_hist: Vec<Vec<usize>>,
    /// Per location (address): the values written so far, in modification order, as model values
    /// (`canon`), with the writing thread.
    pub loc_hist: HashMap<usize, Vec<(usize, u64)>>,
    /// Per (thread, address): index into `loc_hist` of the newest write this thread has seen
    /// (read or written itself); coherence forbids reading anything older.
    pub view: HashMap<(usize, usize), usize>,
    /// Per location, parallel to `loc_hist`: the view each write releases (address -> index).
    pub loc_mv: HashMap<usize, Vec<std::sync::Arc<HashMap<usize, usize>>>>,
    pub nodes: Vec<verif::NodeAddrs>,
    pub head_addr: usize,
    pub steps: u64,
    pub cur_cmd: Vec<usize>,
    /// Statistics for the evidence: how often which path was taken.
    pub stats: HashMap<&'static str, u64>,
}

pub static WORLD: Mutex<Option<World>> = Mutex::new(None);
pub static CV: Condvar = Condvar::new();

pub fn with_world<R>(f: impl FnOnce(&mut World) -> R) -> R {
    let mut g = WORLD.lock().unwrap_or_else(|e| e.into_inner());
    f(g.as_mut().expect("world"))
}

pub fn init_world(nthreads: usize) {
    let mut cells = Vec::new();
    for _ in 0..ARENA_CELLS {
        cells.push(Cell {
            alive: false,
            count: 0,
            oid: 0,
            freed_at: 0,
            panic_on_destroy: false,
        });
    }
    *WORLD.lock().unwrap() = Some(World {
        nthreads,
        parked: vec![None; nthreads],
        grant: vec![None; nthreads],
        finished: vec![false; nthreads],
        tids: HashMap::new(),
        cells,
        next_oid: 0,
        clock: 0,
        log: Vec::new(),
        storages: Vec::new(),
        store_hist: Vec::new(),
        loc_hist: HashMap::new(),
        view: HashMap::new(),
        loc_mv: HashMap::new(),
        nodes: Vec::new(),
        head_addr: verif::list_head_addr(),
        steps: 0,
        cur_cmd: vec![0; nthreads],
        stats: HashMap::new(),
    });
    verif::install(&HOOKS);
}

pub fn register_thread(vtid: usize) {
    let me = unsafe { pthread_self() };
    with_world(|w| {
        w.tids.insert(me, vtid);
    });
}

/// The virtual thread id of the calling OS thread, if it is one.
pub fn vtid() -> Option<usize> {
    let me = unsafe { pthread_self() };
    let g = WORLD.lock().unwrap_or_else(|e| e.into_inner());
    g.as_ref().and_then(|w| w.tids.get(&me).copied())
}

/// Parks the calling virtual thread at a scheduling point; returns the scheduler's choice.
/// Set when the process is on its way out (fault, limit, deadlock report): `exit` runs the
/// calling thread's TLS destructors, which reach the hooks again; nobody schedules any more.
pub static EXITING: std::sync::atomic::AtomicBool = std::sync::atomic::AtomicBool::new(false);

pub fn yield_point(me: usize, p: Pending) -> u64 {
    if EXITING.load(std::sync::atomic::Ordering::SeqCst) {
        return 0;
    }
    let mut g = WORLD.lock().unwrap_or_else(|e| e.into_inner());
    {
        let w = g.as_mut().unwrap();
        w.parked[me] = Some(p);
    }
    CV.notify_all();
    loop {
        {
            let w = g.as_mut().unwrap();
            if let Some(x) = w.grant[me].take() {
                w.parked[me] = None;
                return x;
            }
        }
        g = CV.wait(g).unwrap_or_else(|e| e.into_inner());
    }
}

pub fn log_line(s: String) {
    with_world(|w| w.log.push(s));
}

pub fn stat(name: &'static str) {
    with_world(|w| *w.stats.entry(name).or_insert(0) += 1);
}

// ---------------------------------------------------------------------------------------
// The arena and VPtr
// ---------------------------------------------------------------------------------------

pub fn addr_of_cell(k: usize) -> usize {
    ARENA_BASE + ARENA_STEP * k
}
pub fn cell_of_addr(a: usize) -> Option<usize> {
    if a >= ARENA_BASE && (a - ARENA_BASE) % ARENA_STEP == 0 && (a - ARENA_BASE) / ARENA_STEP < ARENA_CELLS {
        Some((a - ARENA_BASE) / ARENA_STEP)
    } else {
        None
    }
}

/// Opaque pointee type; never dereferenced.
pub struct VCell {
    _private: u8,
}

/// A reference-counted pointer into the arena. The count operations are scheduling points
/// and trace events, the memory is never released so a use after "free" is detected.
pub struct VPtr(pub usize);

unsafe impl Send for VPtr {}
unsafe impl Sync for VPtr {}

pub fn fault(msg: String) -> ! {
    log_line(format!(". FAULT {}", msg));
    crate::dump_and_exit(3);
}

impl VPtr {
    /// Allocates a new object (a scheduling point on virtual threads; the scheduler picks
    /// the address).
    pub fn new() -> VPtr {
        let me = vtid();
        let addr = match me {
            Some(me) => yield_point(me, Pending::Alloc) as usize,
            None => with_world(|w| {
                let k = w.cells.iter().position(|c| !c.alive).expect("arena full");
                addr_of_cell(k)
            }),
        };
        let k = cell_of_addr(addr).expect("bad address from the scheduler");
        with_world(|w| {
            assert!(!w.cells[k].alive);
            let oid = w.next_oid;
            w.next_oid += 1;
            w.cells[k].alive = true;
            w.cells[k].count = 1;
            w.cells[k].oid = oid;
            if let Some(me) = me {
                w.log.push(format!("{} ALLOC {} {}", me, addr, oid));
            }
        });
        VPtr(addr)
    }

    pub fn addr(&self) -> usize {
        self.0
    }

    /// The object's destructor will panic (once).
    pub fn set_panic_on_destroy(&self) {
        let k = cell_of_addr(self.0).expect("non-arena pointer");
        with_world(|w| w.cells[k].panic_on_destroy = true);
    }
}

impl Clone for VPtr {
    fn clone(&self) -> VPtr {
        let me = vtid();
        if let Some(me) = me {
            yield_point(me, Pending::Rc);
        }
        let k = cell_of_addr(self.0).expect("clone of a non-arena pointer");
        let dead = with_world(|w| {
            if !w.cells[k].alive {
                return true;
            }
            let old = w.cells[k].count;
            w.cells[k].count += 1;
            if let Some(me) = me {
                w.log.push(format!("{} RC {} + {}", me, self.0, old));
            }
            false
        });
        if dead {
            fault(format!("DeadInc {}", self.0));
        }
        VPtr(self.0)
    }
}

impl Drop for VPtr {
    fn drop(&mut self) {
        let me = vtid();
        if let Some(me) = me {
            yield_point(me, Pending::Rc);
        }
        let k = cell_of_addr(self.0).expect("drop of a non-arena pointer");
        let mut boom = false;
        let dead = with_world(|w| {
            if !w.cells[k].alive {
                return true;
            }
            let old = w.cells[k].count;
            w.cells[k].count -= 1;
            if let Some(me) = me {
                w.log.push(format!("{} RC {} - {}", me, self.0, old));
            }
            if old == 1 {
                w.cells[k].alive = false;
                w.clock += 1;
                w.cells[k].freed_at = w.clock;
                w.log.push(format!(". DESTROY {} {}", self.0, w.cells[k].oid));
                if w.cells[k].panic_on_destroy {
                    w.cells[k].panic_on_destroy = false;
                    w.log.push(format!(". DESTRUCTOR-PANIC {}", self.0));
                    boom = true;
                }
            }
            false
        });
        if dead {
            fault(format!("DeadDec {}", self.0));
        }
        if boom && !std::thread::panicking() {
            panic!("harness: expected user panic in a destructor");
        }
    }
}

unsafe impl RefCnt for VPtr {
    type Base = VCell;
    fn into_ptr(me: VPtr) -> *mut VCell {
        let a = me.0;
        std::mem::forget(me);
        a as *mut VCell
    }
    fn as_ptr(me: &VPtr) -> *mut VCell {
        me.0 as *mut VCell
    }
    unsafe fn from_ptr(ptr: *const VCell) -> VPtr {
        VPtr(ptr as usize)
    }
}

// ---------------------------------------------------------------------------------------
// Hooks
// ---------------------------------------------------------------------------------------

static HOOKS: Hooks = Hooks {
    pre: hook_pre,
    post: hook_post,
};

fn hook_pre(acc: &Access) -> Decision {
    match vtid() {
        None => Decision::Proceed,
        Some(me) => {
            let weak = acc.op == Op::CasWeak;
            // the first (Relaxed) read of the stored pointer in HybridProtection::attempt
            let stale = if acc.op == Op::Load && acc.ord != Ordering::SeqCst {
                let file = acc.site.file();
                with_world(|w| match classify(w, acc.addr) {
                    // the first (Relaxed) read of the stored pointer in HybridProtection::attempt
                    Class::Store(c) if acc.ord == Ordering::Relaxed && file.ends_with("hybrid.rs") => Some(StaleSite::First(c)),
                    Class::Slot(_, i) if i < 8 && acc.ord == Ordering::Relaxed && file.ends_with("fast.rs") => Some(StaleSite::Scan(acc.addr)),
                    Class::InUse(_) if acc.ord == Ordering::Acquire && file.ends_with("list.rs") => Some(StaleSite::InUse(acc.addr)),
                    Class::Head if acc.ord == Ordering::Relaxed && file.ends_with("list.rs") => Some(StaleSite::Head),
                    Class::Store(_) if acc.ord == Ordering::Relaxed && file.ends_with("cache.rs") => Some(StaleSite::Cache(acc.addr)),
                    _ => None,
                })
            } else {
                None
            };
            let x = yield_point(me, Pending::Acc { weak, stale });
            if weak && x == 1 {
                Decision::SpuriousFail
            } else if stale.is_some() && x >= 2 {
                // the schedule carries the model's value; the head is a node count there
                let v = (x - 2) as usize;
                with_world(|w| {
                    let k = match stale {
                        Some(StaleSite::First(_)) => "stale_first",
                        Some(StaleSite::Scan(_)) => "stale_scan",
                        Some(StaleSite::InUse(_)) => "stale_inuse",
                        Some(StaleSite::Cache(_)) => "stale_cache",
                        _ => "stale_head",
                    };
                    *w.stats.entry(k).or_insert(0) += 1;
                });
                match stale {
                    Some(StaleSite::Head) => Decision::Stale(if v == 0 { 0 } else { with_world(|w| w.nodes[v - 1].node) }),
                    _ => Decision::Stale(v),
                }
            } else {
                Decision::Proceed
            }
        }
    }
}

#[derive(Clone, Copy, Debug, PartialEq, Eq)]
enum Class {
    Store(usize),
    Head,
    Slot(usize, usize),
    Ctrl(usize),
    Addr(usize),
    Offer(usize),
    Env(usize),
    InUse(usize),
    Writers(usize),
    Unknown,
}

fn classify(w: &World, addr: usize) -> Class {
    if addr == w.head_addr {
        return Class::Head;
    }
    if let Some(c) = w.storages.iter().position(|&a| a == addr) {
        return Class::Store(c);
    }
    for (n, nd) in w.nodes.iter().enumerate() {
        if let Some(i) = nd.fast.iter().position(|&a| a == addr) {
            return Class::Slot(n, i);
        }
        if addr == nd.slot {
            return Class::Slot(n, 8);
        }
        if addr == nd.control {
            return Class::Ctrl(n);
        }
        if addr == nd.active_addr {
            return Class::Addr(n);
        }
        if addr == nd.space_offer {
            return Class::Offer(n);
        }
        if addr == nd.handover {
            return Class::Env(n);
        }
        if addr == nd.in_use {
            return Class::InUse(n);
        }
        if addr == nd.active_writers {
            return Class::Writers(n);
        }
    }
    Class::Unknown
}

fn env_index(w: &World, ptr: usize) -> Option<usize> {
    w.nodes.iter().position(|nd| nd.handover == ptr)
}

/// Canonical form of a value stored at a location of the given class (see Base.v).
fn canon(w: &World, cl: Class, v: usize) -> String {
    match cl {
        Class::Head => {
            if v == 0 {
                "0".into()
            } else {
                match w.nodes.iter().position(|nd| nd.node == v) {
                    Some(n) => format!("{}", n + 1),
                    None => format!("?node{:x}", v),
                }
            }
        }
        Class::Ctrl(_) => match v & 3 {
            1 => match env_index(w, v & !3) {
                Some(e) => format!("{}", 4 * (e + 1) + 1),
                None => format!("?env{:x}", v),
            },
            _ => format!("{}", v),
        },
        Class::Offer(_) => {
            if v == 0 {
                "0".into()
            } else {
                match env_index(w, v) {
                    Some(e) => format!("{}", 4 * (e + 1)),
                    None => format!("?env{:x}", v),
                }
            }
        }
        Class::Addr(_) => {
            if v == 0 {
                "0".into()
            } else {
                match w.storages.iter().position(|&a| a == v) {
                    Some(c) => format!("{}", 8 * (c + 1)),
                    None => format!("?storage{:x}", v),
                }
            }
        }
        _ => format!("{}", v),
    }
}

fn loc_name(cl: Class, addr: usize) -> String {
    match cl {
        Class::Store(c) => format!("S{}", c),
        Class::Head => "HEAD".into(),
        Class::Slot(n, i) => format!("SL{}.{}", n, i),
        Class::Ctrl(n) => format!("CT{}", n),
        Class::Addr(n) => format!("AD{}", n),
        Class::Offer(n) => format!("OF{}", n),
        Class::Env(n) => format!("EN{}", n),
        Class::InUse(n) => format!("IU{}", n),
        Class::Writers(n) => format!("WR{}", n),
        Class::Unknown => format!("?{:x}", addr),
    }
}

fn ord_name(o: Ordering) -> &'static str {
    match o {
        Ordering::Relaxed => "Relaxed",
        Ordering::Acquire => "Acquire",
        Ordering::Release => "Release",
        Ordering::AcqRel => "AcqRel",
        Ordering::SeqCst => "SeqCst",
        _ => "?",
    }
}

fn hook_post(acc: &Access, old: usize, ok: bool) {
    let me = match vtid() {
        None => return,
        Some(me) => me,
    };
    with_world(|w| {
        let mut cl = classify(w, acc.addr);
        if cl == Class::Unknown || cl == Class::Head {
            // A node may have been pushed by this very operation.
            w.nodes = verif::nodes();
            cl = classify(w, acc.addr);
        }
        let (op, new) = match acc.op {
            Op::Load => ("load", old),
            Op::Store => ("store", acc.a),
            Op::Swap => ("swap", acc.a),
            Op::Cas => ("cas", if ok { acc.b } else { old }),
            Op::CasWeak => ("casw", if ok { acc.b } else { old }),
            Op::FetchAdd => ("fadd", old.wrapping_add(acc.a)),
            Op::FetchSub => ("fsub", old.wrapping_sub(acc.a)),
        };
        let line = format!(
            "{} ACC {} {} {} {} {} {} {}",
            me,
            loc_name(cl, acc.addr),
            op,
            ord_name(acc.ord),
            ord_name(acc.fail_ord),
            canon(w, cl, old),
            canon(w, cl, new),
            if ok { 1 } else { 0 }
        );
        w.log.push(line);
        // modification order and per-thread views (for the stale-read policies)
        {
            let wrote = match acc.op {
                Op::Load => false,
                Op::Cas | Op::CasWeak => ok,
                _ => true,
            };
            let cn = canon(w, cl, new).parse::<u64>().unwrap_or(u64::MAX);
            let co = canon(w, cl, old).parse::<u64>().unwrap_or(u64::MAX);
            let h = w.loc_hist.entry(acc.addr).or_insert_with(Vec::new);
            if h.is_empty() {
                // the value the location had before its first observed access
                h.push((usize::MAX, co));
            }
            let seen = if wrote {
                h.push((me, cn));
                h.len() - 1
            } else {
                // the newest write with the value read that this thread may still read
                let lo = w.view.get(&(me, acc.addr)).copied().unwrap_or(0);
                (lo..h.len()).rev().find(|&i| h[i].1 == co).unwrap_or(h.len() - 1)
            };
            let hlen = h.len();
            // release / acquire: every write carries the view it releases, an acquiring read joins it
            let is_acq = |o: Ordering| matches!(o, Ordering::Acquire | Ordering::AcqRel | Ordering::SeqCst);
            let is_rel = |o: Ordering| matches!(o, Ordering::Release | Ordering::AcqRel | Ordering::SeqCst);
            let mvs = w.loc_mv.entry(acc.addr).or_insert_with(Vec::new);
            let before = if wrote { hlen - 1 } else { hlen };
            while mvs.len() < before {
                mvs.push(std::sync::Arc::new(HashMap::new()));
            }
            let mut joined: Option<std::sync::Arc<HashMap<usize, usize>>> = None;
            if !wrote {
                let oo = if acc.op == Op::Load { acc.ord } else { acc.fail_ord };
                if is_acq(oo) {
                    joined = Some(mvs[seen].clone());
                }
            } else if acc.op != Op::Store && is_acq(acc.ord) {
                joined = Some(mvs[before - 1].clone());
            }
            let prev_mv = if wrote && acc.op != Op::Store { Some(mvs[before - 1].clone()) } else { None };
            if let Some(j) = joined {
                for (&a, &i) in j.iter() {
                    let e = w.view.entry((me, a)).or_insert(0);
                    if *e < i {
                        *e = i;
                    }
                }
            }
            {
                let e = w.view.entry((me, acc.addr)).or_insert(0);
                if *e < seen {
                    *e = seen;
                }
            }
            if wrote {
                // a read-modify-write continues the release sequence of the write it replaces
                let mut mv: HashMap<usize, usize> = match prev_mv {
                    Some(p) => (*p).clone(),
                    None => HashMap::new(),
                };
                if is_rel(acc.ord) {
                    for (&(t, a), &i) in w.view.iter() {
                        if t == me {
                            let e = mv.entry(a).or_insert(0);
                            if *e < i {
                                *e = i;
                            }
                        }
                    }
                }
                w.loc_mv.get_mut(&acc.addr).unwrap().push(std::sync::Arc::new(mv));
            }
        }
        if let Class::Store(c) = cl {
            if matches!(acc.op, Op::Swap | Op::Cas | Op::CasWeak) && ok {
                while w.store_hist.len() <= c {
                    w.store_hist.push(Vec::new());
                }
                w.store_hist[c].push(old);
            }
        }
        // path statistics
        let file = acc.site.file();
        let key: Option<&'static str> = if file.ends_with("fast.rs") && acc.op == Op::Swap {
            Some("fast_publish")
        } else if file.ends_with("helping.rs") && acc.op == Op::Swap && matches!(cl, Class::Slot(_, 8)) {
            Some("fallback")
        } else if file.ends_with("helping.rs") && acc.op == Op::Cas && matches!(cl, Class::Ctrl(_)) && ok {
            Some("helped")
        } else if matches!(cl, Class::Slot(_, _)) && acc.op == Op::Cas && file.ends_with("mod.rs") && ok {
            Some("pay_ok")
        } else if matches!(cl, Class::Slot(_, _)) && acc.op == Op::Cas && file.ends_with("mod.rs") && !ok {
            Some("pay_fail")
        } else {
            None
        };
        if let Some(k) = key {
            *w.stats.entry(k).or_insert(0) += 1;
        }
    });
}
