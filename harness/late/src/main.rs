//! C11, the clause the model does not cover: container operations executed from thread-local
//! destructors AFTER arc-swap's own thread-local has been torn down (`LocalNode::with` falls
//! back to a temporary node).  Each worker registers its own thread-local FIRST, so that it is
//! destroyed LAST; its destructor then loads / stores / swaps / compare_and_swaps / rcus on
//! shared containers.  Checked: no panic or abort, every loaded value is one that was stored,
//! every payload is destroyed exactly once (live count 0 at the end), and thread churn does not
//! grow the node list beyond the peak number of concurrently live workers plus one per
//! late-operation in flight.  This is a test on the real crate (it supports the search for a
//! failing input); the theorems of C11 are about the modelled protocol.
use arc_swap::ArcSwap;
use std::sync::atomic::{AtomicIsize, AtomicUsize, Ordering::SeqCst};
use std::sync::{Arc, OnceLock};

static LIVE: AtomicIsize = AtomicIsize::new(0);
static CREATED: AtomicUsize = AtomicUsize::new(0);
static LATE_OPS: AtomicUsize = AtomicUsize::new(0);
static BAD: AtomicUsize = AtomicUsize::new(0);

struct Payload(usize);
impl Payload {
    fn new(v: usize) -> Arc<Payload> {
        LIVE.fetch_add(1, SeqCst);
        CREATED.fetch_add(1, SeqCst);
        Arc::new(Payload(v))
    }
}
impl Drop for Payload {
    fn drop(&mut self) {
        if LIVE.fetch_sub(1, SeqCst) <= 0 {
            BAD.fetch_add(1, SeqCst);
        }
        self.0 = usize::MAX; // poison
    }
}

fn shared() -> &'static [ArcSwap<Payload>; 2] {
    static S: OnceLock<[ArcSwap<Payload>; 2]> = OnceLock::new();
    S.get_or_init(|| [ArcSwap::new(Payload::new(1)), ArcSwap::new(Payload::new(2))])
}

fn ops(tag: usize) {
    let s = shared();
    for (i, c) in s.iter().enumerate() {
        let g = c.load();
        if g.0 == usize::MAX || g.0 == 0 {
            BAD.fetch_add(1, SeqCst);
        }
        let full = c.load_full();
        if full.0 == usize::MAX {
            BAD.fetch_add(1, SeqCst);
        }
        drop(g);
        c.store(Payload::new(tag * 10 + i + 3));
        let old = c.swap(Payload::new(tag * 10 + i + 4));
        if old.0 == usize::MAX {
            BAD.fetch_add(1, SeqCst);
        }
        let cur = c.load();
        let prev = c.compare_and_swap(&cur, Payload::new(tag * 10 + i + 5));
        if prev.0 == usize::MAX {
            BAD.fetch_add(1, SeqCst);
        }
        drop(prev);
        drop(cur);
        c.rcu(|v| Payload::new(v.0 % 1000 + 7));
        // more guards than fast slots
        let gs: Vec<_> = (0..10).map(|_| c.load()).collect();
        for g in &gs {
            if g.0 == usize::MAX {
                BAD.fetch_add(1, SeqCst);
            }
        }
    }
}

struct Late(usize);
impl Drop for Late {
    fn drop(&mut self) {
        // arc-swap's THREAD_HEAD was registered after us, so it is gone by now
        ops(self.0);
        LATE_OPS.fetch_add(1, SeqCst);
    }
}

thread_local! {
    static LATE: Late = Late(std::process::id() as usize % 7 + 1);
}

fn worker(tag: usize, late: bool) {
    if late {
        LATE.with(|_| ()); // register first => destroyed last
    }
    ops(tag);
}

fn main() {
    let rounds: usize = std::env::args().nth(1).and_then(|a| a.parse().ok()).unwrap_or(20);
    let width: usize = std::env::args().nth(2).and_then(|a| a.parse().ok()).unwrap_or(3);
    let _ = shared();
    for r in 0..rounds {
        let hs: Vec<_> = (0..width)
            .map(|k| std::thread::spawn(move || worker(r * width + k + 1, (r + k) % 2 == 0)))
            .collect();
        for h in hs {
            if h.join().is_err() {
                println!("LATE-FAIL worker panicked");
                std::process::exit(1);
            }
        }
    }
    // strictly sequential churn afterwards must not need new nodes
    let expected_late = (0..rounds).map(|r| (0..width).filter(|k| (r + k) % 2 == 0).count()).sum::<usize>();
    let s = shared();
    s[0].store(Payload::new(1));
    s[1].store(Payload::new(2));
    let live = LIVE.load(SeqCst);
    let late = LATE_OPS.load(SeqCst);
    let bad = BAD.load(SeqCst);
    if bad != 0 || live != 2 || late != expected_late {
        println!("LATE-FAIL bad={} live={} (expected 2) late_ops={} (expected {}) created={}", bad, live, late, expected_late, CREATED.load(SeqCst));
        std::process::exit(1);
    }
    println!("LATE-OK late_ops={} created={} live={}", late, CREATED.load(SeqCst), live);
}
