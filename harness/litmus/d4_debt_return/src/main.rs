//! D4 regression (property C07, path "debt return -> writer walk -> destruction").
//!
//! Reader: `load`, plain reads of the pointee through the guard, guard drop (returns the debt:
//! `Debt::pay` succeeds, Release).  Writer: waits (Relaxed flag: no happens-before) until the
//! reader is done, `swap`s the value out — its walk over the debt slots finds the reader's slot
//! empty, i.e. its `Debt::pay` FAILS there — and hands the returned `Arc` to a third thread
//! through an `AtomicPtr` (Release/Acquire).  The third thread drops the last reference and so
//! destroys the value.
//!
//! The only synchronisation between the reader's reads and the destruction is
//! reader's pay (Release)  --rf-->  writer's failed pay (FAILURE ordering)  --sb--> hand-over.
//! With failure ordering `Relaxed` (the crate before the D4 fix) Miri reports a data race between
//! the reader's read and the deallocation / drop on the third thread; with `Acquire` it is silent.
//! Coq counterpart: `Seq.HB.path_debt_return_destroy`, `d4_refuted`, `Props.C07.C07_ex_debt_return`.
//!
//! Things that would MASK the race and are avoided on purpose: an mpsc channel for the hand-over
//! (its internal fences synchronise more than needed); letting the reader thread exit early (the
//! thread-local destructor of its debt node does a Release swap that the writer's traversal
//! acquires).
use arc_swap::ArcSwap;
use std::sync::atomic::{AtomicPtr, AtomicUsize, Ordering::*};
use std::sync::Arc;
use std::thread;

static FLAG: AtomicUsize = AtomicUsize::new(0);
static DONE: AtomicUsize = AtomicUsize::new(0);
static HAND: AtomicPtr<Vec<u64>> = AtomicPtr::new(std::ptr::null_mut());

fn main() {
    let s = Arc::new(ArcSwap::from_pointee(vec![1u64, 2, 3]));
    let s_r = s.clone();
    let r = thread::spawn(move || {
        let g = s_r.load();
        let sum: u64 = g.iter().sum(); // plain reads of the pointee
        drop(g); // returns the debt with a Release CAS
        FLAG.store(1, Relaxed); // no happens-before to the writer
        while DONE.load(Relaxed) == 0 {
            std::hint::spin_loop();
        }
        sum
    });
    let s_w = s.clone();
    let w = thread::spawn(move || {
        while FLAG.load(Relaxed) == 0 {
            std::hint::spin_loop();
        }
        let old = s_w.swap(Arc::new(vec![9]));
        HAND.store(Arc::into_raw(old) as *mut _, Release); // hand over to a third thread
    });
    let t = thread::spawn(move || {
        let p = loop {
            let p = HAND.load(Acquire);
            if !p.is_null() {
                break p;
            }
            std::hint::spin_loop();
        };
        let old = unsafe { Arc::from_raw(p as *const Vec<u64>) };
        drop(old); // last reference: destroys the value
        DONE.store(1, Relaxed);
    });
    assert_eq!(r.join().unwrap(), 6);
    w.join().unwrap();
    t.join().unwrap();
    println!("d4_debt_return: completed");
}
