//! D5 regression (properties C01 / C07 item (5), "generation vs. writer").
//!
//! Strategy `FillFastSlots` (feature `internal-test-strategies`) makes every load take the
//! fallback (helping) path.  Reader and writer first warm up (each gets its debt node) on another
//! container.  Writer: `swap`s the value out and drops it (value 1 is destroyed), then raises a
//! Relaxed flag.  Reader: waits for the flag (no happens-before), then `load`s.
//!
//! In `HybridProtection::fallback` the reader publishes its generation with a SeqCst swap and then
//! reads the candidate from the storage.  If that read is only `Acquire` (the crate before the D5
//! fix) it may return the STALE, already removed pointer: the writer's swap precedes the reader's
//! generation swap in the SeqCst order, the writer's walk is long over, nobody will ever pay the
//! debt the reader now confirms on the freed value — Miri reports a use after free
//! ("... has been freed / dangling").  With `SeqCst` the read must return the new value.
//! Coq counterpart: `Seq.HB.gen_vs_writer` (needs all four sites SeqCst), `Props.C07.C07_gen_vs_writer_swap`.
#![allow(deprecated)]
use arc_swap::strategy::test_strategies::FillFastSlots;
use arc_swap::ArcSwapAny;
use std::sync::atomic::{AtomicUsize, Ordering::*};
use std::sync::Arc;
use std::thread;

static FLAG: AtomicUsize = AtomicUsize::new(0);
static READY: AtomicUsize = AtomicUsize::new(0);

type S = ArcSwapAny<Arc<u64>, FillFastSlots>;

fn main() {
    let s: Arc<S> = Arc::new(ArcSwapAny::new(Arc::new(1u64)));
    let warm: Arc<S> = Arc::new(ArcSwapAny::new(Arc::new(0u64)));
    let (s_r, warm_r) = (s.clone(), warm.clone());
    let r = thread::spawn(move || {
        let _ = **warm_r.load(); // get a node for this thread
        READY.fetch_add(1, Relaxed);
        while FLAG.load(Relaxed) == 0 {
            std::hint::spin_loop();
        }
        let g = s_r.load(); // fallback path
        **g
    });
    let (s_w, warm_w) = (s.clone(), warm.clone());
    let w = thread::spawn(move || {
        let _ = **warm_w.load(); // get a node for this thread
        READY.fetch_add(1, Relaxed);
        while READY.load(Relaxed) < 2 {
            std::hint::spin_loop();
        }
        let old = s_w.swap(Arc::new(2));
        drop(old); // value 1 destroyed
        FLAG.store(1, Relaxed);
    });
    let v = r.join().unwrap();
    w.join().unwrap();
    assert!(v == 1 || v == 2);
    println!("d5_stale_candidate: completed ({})", v);
}
