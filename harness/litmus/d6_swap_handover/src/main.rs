//! Litmus program for C04 / C07: the value a writer takes out of the container was put there by
//! another thread; the ONLY synchronisation between the creation of the value (its payload and its
//! reference counts) and its use by the thread that takes it out is the pair of exchanges on the
//! container's pointer (the test coordinates the threads with Relaxed flags only).  The exchange
//! that removes the value must acquire what the exchange that stored it released; Miri reports a
//! data race otherwise.
use arc_swap::ArcSwap;
use std::sync::atomic::{AtomicBool, AtomicUsize, Ordering::Relaxed};
use std::sync::Arc;

struct Payload {
    text: String,
    num: usize,
}

fn main() {
    for round in 0..2usize {
        let shared = ArcSwap::from_pointee(Payload { text: "initial".to_owned(), num: 0 });
        let ready = AtomicUsize::new(0);
        let stored = AtomicBool::new(false);
        std::thread::scope(|s| {
            s.spawn(|| {
                // set the thread's debt node up before the value exists
                assert_eq!(0, shared.load().num);
                ready.fetch_add(1, Relaxed);
                while ready.load(Relaxed) < 2 {
                    std::thread::yield_now();
                }
                let fresh = Arc::new(Payload { text: format!("round {}", round), num: 42 });
                let initial = shared.swap(fresh);
                assert_eq!(0, initial.num);
                stored.store(true, Relaxed);
            });
            s.spawn(|| {
                assert_eq!("initial", shared.load().text);
                ready.fetch_add(1, Relaxed);
                while !stored.load(Relaxed) {
                    std::thread::yield_now();
                }
                // swap
                let got = shared.swap(Arc::new(Payload { text: "successor".to_owned(), num: 7 }));
                assert_eq!(42, got.num);
                assert_eq!(format!("round {}", round), got.text);
                let owned = Arc::try_unwrap(got).ok().expect("the returned handle is the only owner");
                assert_eq!(42, owned.num);
                // compare_and_swap taking out what the previous swap stored
                let cur = shared.load_full();
                let prev = shared.compare_and_swap(&cur, Arc::new(Payload { text: "third".to_owned(), num: 9 }));
                assert_eq!(7, prev.num);
            });
        });
    }
    println!("OK: no data race detected");
}
