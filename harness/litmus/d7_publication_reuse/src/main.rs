//! Litmus program for C07: publication when the ADDRESS of the published value is reused.
//!
//! The writer takes the current value out of the container, and - when it has become the only owner -
//! rewrites the payload in place and stores the same allocation again.  A reader's fast path reads the
//! pointer, publishes its debt and reads the pointer again: both reads may return the same address
//! although the second one belongs to a NEWER publication.  The guard is handed out on that second
//! read, so that read has to acquire the store it reads from (it is SeqCst in the crate).  If only the
//! first read (or a fence before the second) acquires, the reader's plain reads of the payload race
//! with the writer's in-place writes: Miri reports a data race.
//!
//! The threads are paced with Relaxed counters only, which create no happens-before.
use arc_swap::ArcSwap;
use std::sync::atomic::{AtomicUsize, Ordering::Relaxed};
use std::sync::Arc;

struct Payload {
    a: usize,
    b: usize,
    text: String,
}

const ROUNDS: usize = 150;

fn main() {
    let shared = ArcSwap::from_pointee(Payload { a: 0, b: 0, text: String::from("0") });
    let spare = Arc::new(Payload { a: 1_000_000, b: 2_000_000, text: String::from("1000000") });
    let round = AtomicUsize::new(0);
    let seen = AtomicUsize::new(0);
    std::thread::scope(|s| {
        s.spawn(|| {
            for i in 1..=ROUNDS {
                // take the value out (the container holds the spare meanwhile) ...
                let mut mine = shared.swap(spare.clone());
                // ... wait until no reader holds it any more: then it is ours alone
                let mut tries = 0;
                loop {
                    if let Some(p) = Arc::get_mut(&mut mine) {
                        p.a = i;
                        p.b = 2 * i;
                        p.text = format!("{}", i);
                        break;
                    }
                    tries += 1;
                    if tries > 50 {
                        break;
                    }
                    std::thread::yield_now();
                }
                // publish the SAME allocation again
                shared.store(mine);
                round.store(i, Relaxed);
                while seen.load(Relaxed) < i {
                    std::thread::yield_now();
                }
            }
        });
        s.spawn(|| {
            for i in 1..=ROUNDS {
                // exactly one load per round: the reader's last look at the pointer is one publication old
                while round.load(Relaxed) < i {
                    std::thread::yield_now();
                }
                let g = shared.load();
                // plain reads of the payload the writer has rewritten in place
                assert_eq!(g.b, 2 * g.a);
                assert_eq!(g.text, format!("{}", g.a));
                drop(g);
                seen.store(i, Relaxed);
            }
        });
    });
    println!("OK: no data race detected");
}
