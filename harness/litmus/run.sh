#!/bin/bash
# Miri litmus programs for property C07 (and the D5 part of C01).  NOT part of the quick check:
# run by hand or in the thorough tier.
#
#   harness/litmus/run.sh [program ...]          programs: d4_debt_return d5_stale_candidate d6_swap_handover d7_publication_reuse (default: all)
#
#   VERIF_REPO=<dir>     arc-swap checkout to test (default /repo; never written to)
#   LITMUS_SEEDS_D4="0 1 2 3"  LITMUS_SEEDS_D5="0 1 2 3 4 5 6 7"   Miri scheduler/weak-memory seeds
#   LITMUS_TIMEOUT=110   seconds per Miri run
#
# Prints one line `PASS <program> ...` / `FAIL <program> ...` per program and exits 1 if any failed.
# A program FAILS when Miri reports undefined behaviour (data race, use after free, ...) for any seed,
# or does not build / times out.  Expected: PASS on the unchanged crate; d4_debt_return FAILS when the
# failure ordering of Debt::pay (src/debt/mod.rs) is put back to Relaxed; d5_stale_candidate FAILS
# (for some seeds) when the candidate read of HybridProtection::fallback (src/strategy/hybrid.rs) is
# put back to Acquire; d7_publication_reuse FAILS when the confirming read of HybridProtection::attempt
# no longer acquires (e.g. `fence(SeqCst); load(Relaxed)`): a publication at a reused address is then not acquired.
set -u
HERE="$(cd "$(dirname "$0")" && pwd)"
ROOT="$(cd "$HERE/../.." && pwd)"
REPO="${VERIF_REPO:-/repo}"
WORK="${LITMUS_WORK:-$ROOT/work/litmus}"
TARGET="${LITMUS_TARGET:-$ROOT/harness/target/litmus}"
TMO="${LITMUS_TIMEOUT:-110}"
SEEDS_D4="${LITMUS_SEEDS_D4:-0 1 2 3}"
SEEDS_D5="${LITMUS_SEEDS_D5:-0 1 2 3 4 5 6 7}"
export CARGO_NET_OFFLINE=true
# the parent directory's .cargo/config.toml adds --cfg arc_swap_verif (the instrumentation shim);
# the litmus programs must run the crate exactly as users get it
export RUSTFLAGS=""

progs=("$@")
[ ${#progs[@]} -eq 0 ] && progs=(d4_debt_return d5_stale_candidate d6_swap_handover d7_publication_reuse)
rc=0
for p in "${progs[@]}"; do
  if [ ! -d "$HERE/$p" ]; then echo "FAIL $p (no such program)"; rc=1; continue; fi
  case "$p" in d4*) seeds="$SEEDS_D4";; *) seeds="$SEEDS_D5";; esac
  # private copy of the program with the dependency path pointing at $REPO (outside harness/, so
  # that no parent cargo configuration applies)
  d="$WORK/$p"
  rm -rf "$d"; mkdir -p "$d"
  cp -r "$HERE/$p/." "$d/"
  sed -i "s#path = \"/repo\"#path = \"$REPO\"#" "$d/Cargo.toml"
  bad=""; good=""
  for seed in $seeds; do
    log="$WORK/$p.seed$seed.log"
    ( cd "$d" && MIRIFLAGS="-Zmiri-seed=$seed ${LITMUS_MIRIFLAGS:-}" timeout "$TMO" \
        cargo +nightly miri run --offline --target-dir "$TARGET" ) > "$log" 2>&1
    st=$?
    if [ $st -eq 0 ] && ! grep -q "Undefined Behavior" "$log"; then
      good="$good $seed"
    else
      what=$(grep -m1 -E "error: Undefined Behavior|error(\[E[0-9]+\])?:|panicked at" "$log" | cut -c1-160)
      [ $st -eq 124 ] && what="timeout after ${TMO}s"
      bad="$bad $seed[${what:-exit $st}]"
    fi
  done
  if [ -z "$bad" ]; then
    echo "PASS $p repo=$REPO seeds:$good"
  else
    echo "FAIL $p repo=$REPO failing seeds:$bad ; clean seeds:${good:- none} ; logs in $WORK"
    rc=1
  fi
done
exit $rc
