//! One assertion per cell of the matrix, as Marker/AutoTraits.v predicts it: this file compiles
//! iff rustc agrees with every prediction.  A failing assertion is reported by rustc with its line,
//! which the runner maps back to the cell.
#![allow(deprecated, unused_imports, clippy::all)]
#[path = "../common.rs"]
mod common;
use common::{is_send, is_sync, AmbiguousIfSend, AmbiguousIfSync, Obj, UserPtr};

macro_rules! send {
    ($t:ty) => {
        is_send::<$t>();
    };
}
macro_rules! sync {
    ($t:ty) => {
        is_sync::<$t>();
    };
}
macro_rules! not_send {
    ($t:ty) => {
        let _ = <$t as AmbiguousIfSend<_>>::item;
    };
}
macro_rules! not_sync {
    ($t:ty) => {
        let _ = <$t as AmbiguousIfSync<_>>::item;
    };
}

include!(concat!(env!("VERIF_MARKER_GEN"), "/assert_cells.rs"));

fn main() {
    assert_all();
    println!("all {} assertions hold", N_ASSERTIONS);
}
