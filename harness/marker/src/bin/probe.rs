//! Prints, for every type of the generated matrix, what rustc decides: `<index> <Send> <Sync>`.
#![allow(deprecated, unused_imports, clippy::all)]
#[path = "../common.rs"]
mod common;
use common::{NotSend, NotSync, Obj, UserPtr, W};

macro_rules! p {
    ($out:ident, $id:expr, $t:ty) => {
        $out.push(($id, <W<$t>>::SEND, <W<$t>>::SYNC));
    };
}

include!(concat!(env!("VERIF_MARKER_GEN"), "/probe_cells.rs"));

fn main() {
    let mut out: Vec<(u32, bool, bool)> = Vec::new();
    probe_all(&mut out);
    let mut s = String::new();
    for (id, a, b) in out {
        s.push_str(&format!("{} {} {}\n", id, a as u8, b as u8));
    }
    print!("{}", s);
}
