//! Shared by the two binaries of the C19 matrix.
#![allow(dead_code)]
use std::marker::PhantomData;

/// Stands for `dyn DynAccess<T>` / `dyn Deref<Target = T>`: only the `+ Send` / `+ Sync` written
/// next to a trait object matter for the auto traits.
pub trait Obj {}

/// A user-defined pointer type implementing the crate's public `unsafe trait RefCnt`, about which
/// nothing is known but the Send/Sync of its parameter (never instantiated at run time).
pub struct UserPtr<V>(PhantomData<V>);
impl<V> Clone for UserPtr<V> {
    fn clone(&self) -> Self {
        UserPtr(PhantomData)
    }
}
unsafe impl<V> arc_swap::RefCnt for UserPtr<V> {
    type Base = ();
    fn into_ptr(_: Self) -> *mut () {
        unreachable!()
    }
    fn as_ptr(_: &Self) -> *mut () {
        unreachable!()
    }
    unsafe fn from_ptr(_: *const ()) -> Self {
        unreachable!()
    }
}

// ---- measuring: `<W<T>>::SEND` is the inherent constant (true) when `T: Send` holds, and the
// trait's default (false) otherwise (an inherent associated item wins when its impl applies).
pub struct W<T: ?Sized>(PhantomData<T>);
pub trait NotSend {
    const SEND: bool = false;
}
impl<T: ?Sized> NotSend for W<T> {}
impl<T: ?Sized + Send> W<T> {
    pub const SEND: bool = true;
}
pub trait NotSync {
    const SYNC: bool = false;
}
impl<T: ?Sized> NotSync for W<T> {}
impl<T: ?Sized + Sync> W<T> {
    pub const SYNC: bool = true;
}

// ---- asserting: a positive assertion is a bound; a negative one makes the choice of impl
// ambiguous exactly when the trait IS implemented.
pub fn is_send<T: ?Sized + Send>() {}
pub fn is_sync<T: ?Sized + Sync>() {}
pub trait AmbiguousIfSend<A> {
    fn item() {}
}
impl<T: ?Sized> AmbiguousIfSend<()> for T {}
impl<T: ?Sized + Send> AmbiguousIfSend<u8> for T {}
pub trait AmbiguousIfSync<A> {
    fn item() {}
}
impl<T: ?Sized> AmbiguousIfSync<()> for T {}
impl<T: ?Sized + Sync> AmbiguousIfSync<u8> for T {}
