//! C15 differential harness: runs the REAL `arc_swap::RefCnt` methods and `ArcSwapAny`
//! containers on real `Arc`/`Rc`/`Weak`/`Option` values, driven by operation sequences, and
//! prints after every operation what every register refers to (objects named by creation
//! index) and the counts std reports through it.  The same sequences are run on the Coq
//! model (coq/Seq/RefCntMachine.v, extracted) and the outputs are compared line by line.
//!
//! usage: refcnt <sequences-file> [first-seq-index]
use arc_swap::{ArcSwapAny, Guard, RefCnt};
use std::collections::HashMap;
use std::fmt::Write as _;
use std::io::Write as _;
use std::marker::PhantomData;
use std::rc::{Rc, Weak as RcWeak};
use std::sync::atomic::{AtomicUsize, Ordering};
use std::sync::{Arc, Weak};

static DROPS: AtomicUsize = AtomicUsize::new(0);

// ---------------------------------------------------------------- pointee layouts
trait Payload: Sized + 'static {
    fn make(id: usize) -> Self;
    fn id_ok(&self, id: usize) -> bool;
}
impl Payload for () {
    fn make(_: usize) {}
    fn id_ok(&self, _: usize) -> bool { true }
}
impl Payload for u8 {
    fn make(id: usize) -> u8 { id as u8 }
    fn id_ok(&self, id: usize) -> bool { *self == id as u8 }
}
impl Payload for usize {
    fn make(id: usize) -> usize { id.wrapping_mul(0x9E37_79B9) }
    fn id_ok(&self, id: usize) -> bool { *self == id.wrapping_mul(0x9E37_79B9) }
}
impl Payload for String {
    fn make(id: usize) -> String { format!("object number {}", id) }
    fn id_ok(&self, id: usize) -> bool { *self == format!("object number {}", id) }
}
/// Over-aligned, counts its destructions.
#[repr(align(64))]
struct Al64 { id: usize, tail: u8 }
impl Drop for Al64 { fn drop(&mut self) { DROPS.fetch_add(1, Ordering::Relaxed); } }
impl Payload for Al64 {
    fn make(id: usize) -> Al64 { Al64 { id, tail: 0xA5 } }
    fn id_ok(&self, id: usize) -> bool { self.id == id && self.tail == 0xA5 }
}
/// Zero-sized, counts its destructions.
struct Zd;
impl Drop for Zd { fn drop(&mut self) { DROPS.fetch_add(1, Ordering::Relaxed); } }
impl Payload for Zd {
    fn make(_: usize) -> Zd { Zd }
    fn id_ok(&self, _: usize) -> bool { true }
}
/// Heap-owning, counts its destructions.
struct Sd(String);
impl Drop for Sd { fn drop(&mut self) { DROPS.fetch_add(1, Ordering::Relaxed); } }
impl Payload for Sd {
    fn make(id: usize) -> Sd { Sd(format!("tracked object {}", id)) }
    fn id_ok(&self, id: usize) -> bool { self.0 == format!("tracked object {}", id) }
}

// ---------------------------------------------------------------- the two families of std pointers
trait Fam<T>: 'static {
    type S: Clone;
    type W: Clone;
    fn new(t: T) -> Self::S;
    fn downgrade(s: &Self::S) -> Self::W;
    fn upgrade(w: &Self::W) -> Option<Self::S>;
    fn wnew() -> Self::W;
    fn s_addr(s: &Self::S) -> usize;
    fn s_counts(s: &Self::S) -> (usize, usize);
    fn s_payload(s: &Self::S) -> &T;
    fn w_dangling(w: &Self::W) -> bool;
    fn w_addr(w: &Self::W) -> usize;
    fn w_counts(w: &Self::W) -> (usize, usize);
}
struct ArcF;
struct RcF;
impl<T: 'static> Fam<T> for ArcF {
    type S = Arc<T>;
    type W = Weak<T>;
    fn new(t: T) -> Arc<T> { Arc::new(t) }
    fn downgrade(s: &Arc<T>) -> Weak<T> { Arc::downgrade(s) }
    fn upgrade(w: &Weak<T>) -> Option<Arc<T>> { w.upgrade() }
    fn wnew() -> Weak<T> { Weak::new() }
    fn s_addr(s: &Arc<T>) -> usize { Arc::as_ptr(s) as usize }
    fn s_counts(s: &Arc<T>) -> (usize, usize) { (Arc::strong_count(s), Arc::weak_count(s)) }
    fn s_payload(s: &Arc<T>) -> &T { s }
    fn w_dangling(w: &Weak<T>) -> bool { Weak::ptr_eq(w, &Weak::new()) }
    fn w_addr(w: &Weak<T>) -> usize { Weak::as_ptr(w) as usize }
    fn w_counts(w: &Weak<T>) -> (usize, usize) { (Weak::strong_count(w), Weak::weak_count(w)) }
}
impl<T: 'static> Fam<T> for RcF {
    type S = Rc<T>;
    type W = RcWeak<T>;
    fn new(t: T) -> Rc<T> { Rc::new(t) }
    fn downgrade(s: &Rc<T>) -> RcWeak<T> { Rc::downgrade(s) }
    fn upgrade(w: &RcWeak<T>) -> Option<Rc<T>> { w.upgrade() }
    fn wnew() -> RcWeak<T> { RcWeak::new() }
    fn s_addr(s: &Rc<T>) -> usize { Rc::as_ptr(s) as usize }
    fn s_counts(s: &Rc<T>) -> (usize, usize) { (Rc::strong_count(s), Rc::weak_count(s)) }
    fn s_payload(s: &Rc<T>) -> &T { s }
    fn w_dangling(w: &RcWeak<T>) -> bool { RcWeak::ptr_eq(w, &RcWeak::new()) }
    fn w_addr(w: &RcWeak<T>) -> usize { RcWeak::as_ptr(w) as usize }
    fn w_counts(w: &RcWeak<T>) -> (usize, usize) { (RcWeak::strong_count(w), RcWeak::weak_count(w)) }
}

/// Names objects by creation index: address -> index of the latest object created there.
struct Cx<T> {
    classes: HashMap<usize, usize>,
    _t: PhantomData<T>,
}
impl<T: Payload> Cx<T> {
    fn cls(&self, addr: usize) -> String {
        match self.classes.get(&addr) {
            Some(c) => c.to_string(),
            None => "?".to_string(),
        }
    }
    /// layout facts the crate relies on (ref_cnt.rs:23-34, debt/mod.rs:34-40)
    fn layout_flag(addr: usize) -> &'static str {
        if addr == 0 || addr == 3 || addr == usize::MAX || addr % std::mem::align_of::<T>() != 0 || addr % 4 == 3 {
            "!LAYOUT"
        } else {
            ""
        }
    }
    fn show_s<F: Fam<T>>(&self, s: &F::S) -> String {
        let a = F::s_addr(s);
        let (sc, wc) = F::s_counts(s);
        let mut r = format!("@{}({},{})", self.cls(a), sc, wc);
        r.push_str(Self::layout_flag(a));
        if let Some(c) = self.classes.get(&a) {
            if !F::s_payload(s).id_ok(*c) {
                r.push_str("!PAYLOAD");
            }
        }
        r
    }
    fn show_w<F: Fam<T>>(&self, w: &F::W) -> String {
        if F::w_dangling(w) {
            return "~dg".to_string();
        }
        let a = F::w_addr(w);
        let (sc, wc) = F::w_counts(w);
        let up = match F::upgrade(w) {
            Some(s) => {
                let ok = self.classes.get(&a).map(|c| F::s_payload(&s).id_ok(*c)).unwrap_or(true);
                drop(s);
                if ok { "1" } else { "1!PAYLOAD" }
            }
            None => "0",
        };
        format!("~{}({},{},{}){}", self.cls(a), sc, wc, up, Self::layout_flag(a))
    }
    fn show_p(&self, p: *mut T) -> String {
        let a = p as usize;
        if a == 0 {
            "null".to_string()
        } else if a == usize::MAX {
            "MAX".to_string()
        } else {
            match self.classes.get(&a) {
                Some(c) => format!("@{}{}", c, Self::layout_flag(a)),
                None => "?".to_string(),
            }
        }
    }
}

// ---------------------------------------------------------------- the kinds under test
enum Base<S, W> { S(S), W(W), Empty }

trait Kind<T: Payload, F: Fam<T>>: RefCnt<Base = T> + Clone {
    const STRONG: bool;
    const NULLABLE: bool;
    fn from_s(s: F::S) -> Self;
    fn from_w(w: F::W) -> Self;
    fn empty(d: usize) -> Option<Self>;
    fn unwrap_base(self) -> Base<F::S, F::W>;
    fn show(&self, cx: &Cx<T>) -> String;
}
impl<T: Payload> Kind<T, ArcF> for Arc<T> {
    const STRONG: bool = true;
    const NULLABLE: bool = false;
    fn from_s(s: Arc<T>) -> Self { s }
    fn from_w(_: Weak<T>) -> Self { unreachable!() }
    fn empty(_: usize) -> Option<Self> { None }
    fn unwrap_base(self) -> Base<Arc<T>, Weak<T>> { Base::S(self) }
    fn show(&self, cx: &Cx<T>) -> String { cx.show_s::<ArcF>(self) }
}
impl<T: Payload> Kind<T, RcF> for Rc<T> {
    const STRONG: bool = true;
    const NULLABLE: bool = false;
    fn from_s(s: Rc<T>) -> Self { s }
    fn from_w(_: RcWeak<T>) -> Self { unreachable!() }
    fn empty(_: usize) -> Option<Self> { None }
    fn unwrap_base(self) -> Base<Rc<T>, RcWeak<T>> { Base::S(self) }
    fn show(&self, cx: &Cx<T>) -> String { cx.show_s::<RcF>(self) }
}
impl<T: Payload> Kind<T, ArcF> for Weak<T> {
    const STRONG: bool = false;
    const NULLABLE: bool = true;
    fn from_s(_: Arc<T>) -> Self { unreachable!() }
    fn from_w(w: Weak<T>) -> Self { w }
    fn empty(d: usize) -> Option<Self> { if d == 0 { Some(Weak::new()) } else { None } }
    fn unwrap_base(self) -> Base<Arc<T>, Weak<T>> { Base::W(self) }
    fn show(&self, cx: &Cx<T>) -> String { cx.show_w::<ArcF>(self) }
}
impl<T: Payload> Kind<T, RcF> for RcWeak<T> {
    const STRONG: bool = false;
    const NULLABLE: bool = true;
    fn from_s(_: Rc<T>) -> Self { unreachable!() }
    fn from_w(w: RcWeak<T>) -> Self { w }
    fn empty(d: usize) -> Option<Self> { if d == 0 { Some(RcWeak::new()) } else { None } }
    fn unwrap_base(self) -> Base<Rc<T>, RcWeak<T>> { Base::W(self) }
    fn show(&self, cx: &Cx<T>) -> String { cx.show_w::<RcF>(self) }
}
impl<T: Payload, F: Fam<T>, K: Kind<T, F>> Kind<T, F> for Option<K> {
    const STRONG: bool = K::STRONG;
    const NULLABLE: bool = true;
    fn from_s(s: F::S) -> Self { Some(K::from_s(s)) }
    fn from_w(w: F::W) -> Self { Some(K::from_w(w)) }
    fn empty(d: usize) -> Option<Self> { if d == 0 { Some(None) } else { K::empty(d - 1).map(Some) } }
    fn unwrap_base(self) -> Base<F::S, F::W> {
        match self { Some(k) => k.unwrap_base(), None => Base::Empty }
    }
    fn show(&self, cx: &Cx<T>) -> String {
        match self { Some(k) => format!("S({})", k.show(cx)), None => "N".to_string() }
    }
}

// ---------------------------------------------------------------- the register machine
const NREG: usize = 4;
const NCON: usize = 2;

#[derive(Clone, Debug)]
struct Op { name: String, a: Vec<usize> }

struct SeqIn { id: String, kind: String, ty: String, track: bool, ops: Vec<Op> }

fn regs<X>(r: &[Option<X>], f: impl Fn(&X) -> String) -> String {
    r.iter().map(|x| match x { Some(x) => f(x), None => "-".to_string() }).collect::<Vec<_>>().join(" ")
}

/// Writes out what has been collected so far (a crash must not swallow the lines before it).
fn emit(out: &mut String) {
    let stdout = std::io::stdout();
    let mut h = stdout.lock();
    let _ = h.write_all(out.as_bytes());
    let _ = h.flush();
    out.clear();
}

fn run_seq<T: Payload, F: Fam<T>, K: Kind<T, F>>(sq: &SeqIn, out: &mut String) {
    DROPS.store(0, Ordering::Relaxed);
    let mut cx: Cx<T> = Cx { classes: HashMap::new(), _t: PhantomData };
    let mut next = 0usize;
    let mut ra: Vec<Option<F::S>> = (0..NREG).map(|_| None).collect();
    let mut rw: Vec<Option<F::W>> = (0..NREG).map(|_| None).collect();
    let mut rv: Vec<Option<K>> = (0..NREG).map(|_| None).collect();
    let mut rp: Vec<Option<*mut T>> = (0..NREG).map(|_| None).collect();
    let mut rc: Vec<Option<ArcSwapAny<K>>> = (0..NCON).map(|_| None).collect();
    fn free<X>(r: &[Option<X>], i: usize) -> bool { i < r.len() && r[i].is_none() }
    fn full<X>(r: &[Option<X>], i: usize) -> bool { i < r.len() && r[i].is_some() }

    for (n, op) in sq.ops.iter().enumerate() {
        let a = &op.a;
        let mut res = "ok".to_string();
        let mut inv = false;
        match op.name.as_str() {
            "new" => {
                if free(&ra, a[0]) {
                    let s = F::new(T::make(next));
                    cx.classes.insert(F::s_addr(&s), next);
                    next += 1;
                    ra[a[0]] = Some(s);
                } else { inv = true }
            }
            "acl" => {
                if full(&ra, a[0]) && free(&ra, a[1]) { ra[a[1]] = ra[a[0]].clone(); } else { inv = true }
            }
            "adr" => {
                if full(&ra, a[0]) { drop(ra[a[0]].take()); } else { inv = true }
            }
            "adn" => {
                if full(&ra, a[0]) && free(&rw, a[1]) { rw[a[1]] = Some(F::downgrade(ra[a[0]].as_ref().unwrap())); } else { inv = true }
            }
            "wup" => {
                if full(&rw, a[0]) && free(&ra, a[1]) {
                    match F::upgrade(rw[a[0]].as_ref().unwrap()) {
                        Some(s) => { ra[a[1]] = Some(s); res = "some".into() }
                        None => res = "none".into(),
                    }
                } else { inv = true }
            }
            "wnw" => {
                if free(&rw, a[0]) { rw[a[0]] = Some(F::wnew()); } else { inv = true }
            }
            "wcl" => {
                if full(&rw, a[0]) && free(&rw, a[1]) { rw[a[1]] = rw[a[0]].clone(); } else { inv = true }
            }
            "wdr" => {
                if full(&rw, a[0]) { drop(rw[a[0]].take()); } else { inv = true }
            }
            "vmk" => {
                if !free(&rv, a[1]) { inv = true }
                else if K::STRONG {
                    if full(&ra, a[0]) { rv[a[1]] = Some(K::from_s(ra[a[0]].take().unwrap())); } else { inv = true }
                } else if full(&rw, a[0]) { rv[a[1]] = Some(K::from_w(rw[a[0]].take().unwrap())); } else { inv = true }
            }
            "vem" => {
                if free(&rv, a[1]) {
                    match K::empty(a[0]) { Some(v) => rv[a[1]] = Some(v), None => inv = true }
                } else { inv = true }
            }
            "vcl" => {
                if full(&rv, a[0]) && free(&rv, a[1]) { rv[a[1]] = rv[a[0]].clone(); } else { inv = true }
            }
            "vdr" => {
                if full(&rv, a[0]) { drop(rv[a[0]].take()); } else { inv = true }
            }
            "vun" => {
                let dest_free = if K::STRONG { free(&ra, a[1]) } else { free(&rw, a[1]) };
                if full(&rv, a[0]) && dest_free {
                    match rv[a[0]].take().unwrap().unwrap_base() {
                        Base::S(s) => ra[a[1]] = Some(s),
                        Base::W(w) => rw[a[1]] = Some(w),
                        Base::Empty => (),
                    }
                } else { inv = true }
            }
            // ---- the trait under test
            "into" => {
                if full(&rv, a[0]) && free(&rp, a[1]) { rp[a[1]] = Some(K::into_ptr(rv[a[0]].take().unwrap())); } else { inv = true }
            }
            "asp" => {
                if full(&rv, a[0]) { res = format!("r={}", cx.show_p(K::as_ptr(rv[a[0]].as_ref().unwrap()))); } else { inv = true }
            }
            "from" => {
                if full(&rp, a[0]) && free(&rv, a[1]) {
                    let p = rp[a[0]].take().unwrap();
                    rv[a[1]] = Some(unsafe { K::from_ptr(p as *const T) });
                } else { inv = true }
            }
            "inc" => {
                if full(&rv, a[0]) && free(&rp, a[1]) { rp[a[1]] = Some(K::inc(rv[a[0]].as_ref().unwrap())); } else { inv = true }
            }
            "dec" => {
                if full(&rp, a[0]) {
                    let p = rp[a[0]].take().unwrap();
                    unsafe { K::dec(p as *const T) };
                } else { inv = true }
            }
            "pnull" => {
                if K::NULLABLE && free(&rp, a[0]) { rp[a[0]] = Some(std::ptr::null_mut()); } else { inv = true }
            }
            // ---- containers
            "cnew" => {
                if full(&rv, a[1]) && free(&rc, a[0]) { rc[a[0]] = Some(ArcSwapAny::new(rv[a[1]].take().unwrap())); } else { inv = true }
            }
            "clf" => {
                if full(&rc, a[0]) && free(&rv, a[1]) { rv[a[1]] = Some(rc[a[0]].as_ref().unwrap().load_full()); } else { inv = true }
            }
            "clg" => {
                if full(&rc, a[0]) && free(&rv, a[1]) {
                    let g = rc[a[0]].as_ref().unwrap().load();
                    rv[a[1]] = Some(Guard::into_inner(g));
                } else { inv = true }
            }
            "cst" => {
                if full(&rc, a[0]) && full(&rv, a[1]) { rc[a[0]].as_ref().unwrap().store(rv[a[1]].take().unwrap()); } else { inv = true }
            }
            "csw" => {
                if full(&rc, a[0]) && full(&rv, a[1]) && free(&rv, a[2]) {
                    let old = rc[a[0]].as_ref().unwrap().swap(rv[a[1]].take().unwrap());
                    rv[a[2]] = Some(old);
                } else { inv = true }
            }
            "cin" => {
                if full(&rc, a[0]) && free(&rv, a[1]) { rv[a[1]] = Some(rc[a[0]].take().unwrap().into_inner()); } else { inv = true }
            }
            "cdr" => {
                if full(&rc, a[0]) { drop(rc[a[0]].take()); } else { inv = true }
            }
            other => panic!("unknown op {}", other),
        }
        if inv { res = "inv".into() }
        let d = if sq.track { DROPS.load(Ordering::Relaxed).to_string() } else { "-".to_string() };
        // the operation's own outcome first, flushed: if an observation below dies, the line is still there
        let _ = write!(out, "{} {}", n, res);
        emit(out);
        let _ = writeln!(out, " A[{}] W[{}] V[{}] P[{}] d={}",
            regs(&ra, |s| cx.show_s::<F>(s)), regs(&rw, |w| cx.show_w::<F>(w)),
            regs(&rv, |v| v.show(&cx)), regs(&rp, |p| cx.show_p(*p)), d);
        emit(out);
    }
    // whatever is left (only after invalid operations) is leaked, not dropped
    for x in ra { std::mem::forget(x) }
    for x in rw { std::mem::forget(x) }
    for x in rv { std::mem::forget(x) }
    for x in rc { std::mem::forget(x) }
}

macro_rules! by_type {
    ($sq:expr, $out:expr, $f:ty, $k:ident) => {
        match $sq.ty.as_str() {
            "unit" => run_seq::<(), $f, $k!(())>($sq, $out),
            "u8" => run_seq::<u8, $f, $k!(u8)>($sq, $out),
            "usize" => run_seq::<usize, $f, $k!(usize)>($sq, $out),
            "string" => run_seq::<String, $f, $k!(String)>($sq, $out),
            "al64" => run_seq::<Al64, $f, $k!(Al64)>($sq, $out),
            "zd" => run_seq::<Zd, $f, $k!(Zd)>($sq, $out),
            "sd" => run_seq::<Sd, $f, $k!(Sd)>($sq, $out),
            t => panic!("unknown pointee {}", t),
        }
    };
}
macro_rules! k_arc { ($t:ty) => { Arc<$t> } }
macro_rules! k_rc { ($t:ty) => { Rc<$t> } }
macro_rules! k_weak { ($t:ty) => { Weak<$t> } }
macro_rules! k_rcweak { ($t:ty) => { RcWeak<$t> } }
macro_rules! k_oarc { ($t:ty) => { Option<Arc<$t>> } }
macro_rules! k_orc { ($t:ty) => { Option<Rc<$t>> } }
macro_rules! k_ooarc { ($t:ty) => { Option<Option<Arc<$t>>> } }
macro_rules! k_oorc { ($t:ty) => { Option<Option<Rc<$t>>> } }
macro_rules! k_oweak { ($t:ty) => { Option<Weak<$t>> } }
macro_rules! k_orcweak { ($t:ty) => { Option<RcWeak<$t>> } }

fn dispatch(sq: &SeqIn, out: &mut String) {
    match sq.kind.as_str() {
        "arc" => by_type!(sq, out, ArcF, k_arc),
        "rc" => by_type!(sq, out, RcF, k_rc),
        "weak" => by_type!(sq, out, ArcF, k_weak),
        "rcweak" => by_type!(sq, out, RcF, k_rcweak),
        "oarc" => by_type!(sq, out, ArcF, k_oarc),
        "orc" => by_type!(sq, out, RcF, k_orc),
        "ooarc" => by_type!(sq, out, ArcF, k_ooarc),
        "oorc" => by_type!(sq, out, RcF, k_oorc),
        "oweak" => by_type!(sq, out, ArcF, k_oweak),
        "orcweak" => by_type!(sq, out, RcF, k_orcweak),
        k => panic!("unknown kind {}", k),
    }
}

fn main() {
    let args: Vec<String> = std::env::args().collect();
    let text = std::fs::read_to_string(&args[1]).expect("sequences file");
    let first: usize = args.get(2).map(|s| s.parse().unwrap()).unwrap_or(0);
    let mut seqs: Vec<SeqIn> = Vec::new();
    for line in text.lines() {
        let w: Vec<&str> = line.split_whitespace().collect();
        if w.is_empty() || w[0].starts_with('#') { continue }
        if w[0] == "seq" {
            seqs.push(SeqIn { id: w[1].into(), kind: w[2].into(), ty: w[3].into(), track: w[4] == "1", ops: vec![] });
        } else if w[0] == "end" {
        } else {
            let a = w[1..].iter().map(|x| x.parse().unwrap()).collect();
            seqs.last_mut().unwrap().ops.push(Op { name: w[0].into(), a });
        }
    }
    let stdout = std::io::stdout();
    for sq in seqs.iter().skip(first) {
        let mut out = String::new();
        // the header goes out first so that a crash is attributed to this sequence
        {
            let mut h = stdout.lock();
            let _ = writeln!(h, "seq {}", sq.id);
            let _ = h.flush();
        }
        dispatch(sq, &mut out);
        let mut h = stdout.lock();
        let _ = h.write_all(out.as_bytes());
        let _ = writeln!(h, "end {}", sq.id);
        let _ = h.flush();
    }
}
