//! C14 differential harness: runs generated single-threaded programs over the public API of
//! arc-swap with REAL `Arc`s under three strategies (DefaultStrategy, FillFastSlots,
//! RwLock<()>) and prints, after every operation, the identity the call returned and
//! `strong_count` of every object created so far.
//!
//! usage: seq <programs-file> [first-program-index]
//!
//! file format (see coq/driver/seq_run.ml for the model side, which reads the same file):
//!   prog <id> <arc|opt> <ncont> <nhand>
//!   <op> <args>*
//!   end
//!
//! Every (program, strategy) pair runs on a fresh thread, so that the thread-local node of the
//! hybrid strategy starts with offset 0 and eight empty slots, as the model assumes.
#![allow(deprecated)]

use std::collections::HashMap;
use std::fmt::Write as _;
use std::io::Write as _;
use std::sync::{Arc, Mutex, RwLock, Weak};

use arc_swap::strategy::test_strategies::FillFastSlots;
use arc_swap::strategy::{CaS, DefaultStrategy, Strategy};
use arc_swap::{ArcSwapAny, Guard, RefCnt};

pub struct Obj(#[allow(dead_code)] u32);

/// The two flavours of the pointer: `Arc<Obj>` and `Option<Arc<Obj>>`.
trait Flav: RefCnt<Base = Obj> + Clone + Send + Sync + 'static {
    const NULLABLE: bool;
    fn mk(a: Option<Arc<Obj>>) -> Self;
    fn peek(&self) -> Option<&Arc<Obj>>;
    fn cont_from_pointee<S: Strategy<Self> + Default>(o: Obj) -> ArcSwapAny<Self, S>;
    fn cont_empty<S: Strategy<Self> + Default>() -> ArcSwapAny<Self, S>;
}

impl Flav for Arc<Obj> {
    const NULLABLE: bool = false;
    fn mk(a: Option<Arc<Obj>>) -> Self {
        a.expect("null in the Arc flavour")
    }
    fn peek(&self) -> Option<&Arc<Obj>> {
        Some(self)
    }
    fn cont_from_pointee<S: Strategy<Self> + Default>(o: Obj) -> ArcSwapAny<Self, S> {
        ArcSwapAny::<Arc<Obj>, S>::from_pointee(o)
    }
    fn cont_empty<S: Strategy<Self> + Default>() -> ArcSwapAny<Self, S> {
        panic!("empty() in the Arc flavour")
    }
}

impl Flav for Option<Arc<Obj>> {
    const NULLABLE: bool = true;
    fn mk(a: Option<Arc<Obj>>) -> Self {
        a
    }
    fn peek(&self) -> Option<&Arc<Obj>> {
        self.as_ref()
    }
    fn cont_from_pointee<S: Strategy<Self> + Default>(o: Obj) -> ArcSwapAny<Self, S> {
        ArcSwapAny::<Option<Arc<Obj>>, S>::from_pointee(o)
    }
    fn cont_empty<S: Strategy<Self> + Default>() -> ArcSwapAny<Self, S> {
        ArcSwapAny::<Option<Arc<Obj>>, S>::empty()
    }
}

/// `&Guard` and `Guard` implement `AsRaw` only for the guard of the DEFAULT strategy
/// (src/as_raw.rs:47-59: `Guard<T>` = `Guard<T, DefaultStrategy>`).  For the other strategies the
/// program has to write `&*guard` (the `&T` form) and, for a guard it gives up, drop it after the call.
trait CasForms<T: Flav>: Strategy<T> + CaS<T> + Sized {
    fn cas_gref(c: &ArcSwapAny<T, Self>, g: &Guard<T, Self>, new: T) -> Guard<T, Self>;
    fn cas_gval(c: &ArcSwapAny<T, Self>, g: Guard<T, Self>, new: T) -> Guard<T, Self>;
}
impl<T: Flav> CasForms<T> for DefaultStrategy {
    fn cas_gref(c: &ArcSwapAny<T, Self>, g: &Guard<T, Self>, new: T) -> Guard<T, Self> {
        c.compare_and_swap(g, new)
    }
    fn cas_gval(c: &ArcSwapAny<T, Self>, g: Guard<T, Self>, new: T) -> Guard<T, Self> {
        c.compare_and_swap(g, new)
    }
}
macro_rules! deref_forms {
    ($s:ty) => {
        impl<T: Flav> CasForms<T> for $s {
            fn cas_gref(c: &ArcSwapAny<T, Self>, g: &Guard<T, Self>, new: T) -> Guard<T, Self> {
                c.compare_and_swap(&**g, new)
            }
            fn cas_gval(c: &ArcSwapAny<T, Self>, g: Guard<T, Self>, new: T) -> Guard<T, Self> {
                let r = c.compare_and_swap(&*g, new);
                drop(g);
                r
            }
        }
    };
}
deref_forms!(FillFastSlots);
deref_forms!(RwLock<()>);

enum H<T: RefCnt, S: Strategy<T>> {
    Val(T),
    Guard(Guard<T, S>),
}

#[derive(Clone, Debug)]
enum Cur {
    Arc(usize),
    GuardRef(usize),
    GuardVal(usize),
    Const(usize),
    Mut(usize),
    NullConst,
    NullMut,
    None,
}

#[derive(Clone, Debug)]
enum Op {
    Alloc(usize),
    Null(usize),
    Clone(usize, usize),
    Drop(usize),
    New(usize, usize),
    FromPointee(usize),
    Empty(usize),
    Load(usize, usize),
    LoadFull(usize, usize),
    GuardInto(usize),
    GuardFrom(usize),
    Store(usize, usize),
    Swap(usize, usize),
    Cas(usize, Cur, usize),
    Rcu(usize, usize, usize),
    IntoInner(usize, usize),
    DropC(usize),
}

struct Prog {
    id: String,
    opt: bool,
    ncont: usize,
    nhand: usize,
    ops: Vec<Op>,
}

fn parse(text: &str) -> Vec<Prog> {
    let mut progs = Vec::new();
    let mut cur: Option<Prog> = None;
    for line in text.lines() {
        let w: Vec<&str> = line.split_whitespace().collect();
        if w.is_empty() || w[0].starts_with('#') {
            continue;
        }
        let n = |i: usize| -> usize { w[i].parse().expect("number") };
        match w[0] {
            "prog" => {
                cur = Some(Prog { id: w[1].to_string(), opt: w[2] == "opt", ncont: n(3), nhand: n(4), ops: Vec::new() });
            }
            "end" => progs.push(cur.take().expect("end without prog")),
            name => {
                let op = match name {
                    "alloc" => Op::Alloc(n(1)),
                    "null" => Op::Null(n(1)),
                    "clone" => Op::Clone(n(1), n(2)),
                    "drop" => Op::Drop(n(1)),
                    "new" => Op::New(n(1), n(2)),
                    "fromp" => Op::FromPointee(n(1)),
                    "empty" => Op::Empty(n(1)),
                    "load" => Op::Load(n(1), n(2)),
                    "loadfull" => Op::LoadFull(n(1), n(2)),
                    "ginto" => Op::GuardInto(n(1)),
                    "gfrom" => Op::GuardFrom(n(1)),
                    "store" => Op::Store(n(1), n(2)),
                    "swap" => Op::Swap(n(1), n(2)),
                    "cas" => {
                        // cas <c> <form> [<reg>] <new>
                        let (cu, newi) = match w[2] {
                            "arc" => (Cur::Arc(n(3)), 4),
                            "gref" => (Cur::GuardRef(n(3)), 4),
                            "gval" => (Cur::GuardVal(n(3)), 4),
                            "const" => (Cur::Const(n(3)), 4),
                            "mut" => (Cur::Mut(n(3)), 4),
                            "nullc" => (Cur::NullConst, 3),
                            "nullm" => (Cur::NullMut, 3),
                            "none" => (Cur::None, 3),
                            f => panic!("unknown form {}", f),
                        };
                        Op::Cas(n(1), cu, n(newi))
                    }
                    "rcu" => Op::Rcu(n(1), n(2), n(3)),
                    "into" => Op::IntoInner(n(1), n(2)),
                    "dropc" => Op::DropC(n(1)),
                    other => panic!("unknown op {}", other),
                };
                cur.as_mut().expect("op outside prog").ops.push(op);
            }
        }
    }
    progs
}

struct Machine<T: Flav, S: CasForms<T> + Default + Send + Sync + 'static> {
    cont: Vec<Option<ArcSwapAny<T, S>>>,
    hand: Vec<Option<H<T, S>>>,
    objs: Vec<Weak<Obj>>,
    ids: HashMap<usize, usize>,
}

enum Res {
    Invalid,
    Unit,
    Ptr(Option<usize>),
    Cas(Option<usize>, bool),
}

impl<T: Flav, S: CasForms<T> + Default + Send + Sync + 'static> Machine<T, S>
where
    ArcSwapAny<T, S>: Sync,
{
    fn new(ncont: usize, nhand: usize) -> Self {
        Machine {
            cont: (0..ncont).map(|_| None).collect(),
            hand: (0..nhand).map(|_| None).collect(),
            objs: Vec::new(),
            ids: HashMap::new(),
        }
    }

    fn register(&mut self, a: &Arc<Obj>) -> usize {
        let id = self.objs.len();
        self.objs.push(Arc::downgrade(a));
        // the Weak keeps the allocation (not the value) alive: the address is never reused in a program
        let old = self.ids.insert(Arc::as_ptr(a) as usize, id);
        assert!(old.is_none(), "address of a live allocation handed out twice");
        id
    }

    fn id_of_raw(&self, p: *const Obj) -> Option<usize> {
        if p.is_null() {
            None
        } else {
            Some(*self.ids.get(&(p as usize)).expect("pointer to an object the program never created"))
        }
    }

    fn id_of(&self, t: &T) -> Option<usize> {
        let raw = T::as_ptr(t) as *const Obj;
        let via_arc = t.peek().map(|a| Arc::as_ptr(a));
        assert_eq!(raw, via_arc.unwrap_or(std::ptr::null()), "RefCnt::as_ptr and Arc::as_ptr differ");
        self.id_of_raw(raw)
    }

    fn hid(&self, r: usize) -> Option<usize> {
        match self.hand[r].as_ref().unwrap() {
            H::Val(t) => self.id_of(t),
            H::Guard(g) => self.id_of(&**g),
        }
    }

    // ---- shape (the same checks as SeqSpec.valid)
    fn h_empty(&self, r: usize) -> bool {
        r < self.hand.len() && self.hand[r].is_none()
    }
    /// a destination: empty and not one of the two reserved registers
    fn h_free(&self, r: usize) -> bool {
        r >= 2 && self.h_empty(r)
    }
    fn is_val(&self, r: usize) -> bool {
        r < self.hand.len() && matches!(self.hand[r], Some(H::Val(_)))
    }
    fn is_guard(&self, r: usize) -> bool {
        r < self.hand.len() && matches!(self.hand[r], Some(H::Guard(_)))
    }
    fn is_any(&self, r: usize) -> bool {
        r < self.hand.len() && self.hand[r].is_some()
    }
    fn c_empty(&self, c: usize) -> bool {
        c < self.cont.len() && self.cont[c].is_none()
    }
    fn c_full(&self, c: usize) -> bool {
        c < self.cont.len() && self.cont[c].is_some()
    }

    fn valid(&self, op: &Op) -> bool {
        if !(self.h_empty(0) && self.h_empty(1)) {
            return false;
        }
        match op {
            Op::Alloc(r) | Op::Null(r) => self.h_free(*r),
            Op::Clone(s, d) => self.is_val(*s) && self.h_free(*d),
            Op::Drop(r) => self.is_any(*r),
            Op::New(c, r) => self.c_empty(*c) && self.is_val(*r),
            Op::FromPointee(c) | Op::Empty(c) => self.c_empty(*c),
            Op::Load(c, d) | Op::LoadFull(c, d) | Op::IntoInner(c, d) => self.c_full(*c) && self.h_free(*d),
            Op::GuardInto(r) => self.is_guard(*r),
            Op::GuardFrom(r) => self.is_val(*r),
            Op::Store(c, r) | Op::Swap(c, r) => self.c_full(*c) && self.is_val(*r),
            Op::Cas(c, cu, r) => {
                self.c_full(*c)
                    && self.is_val(*r)
                    && match cu {
                        Cur::Arc(x) => self.is_val(*x) && x != r,
                        Cur::GuardRef(x) | Cur::GuardVal(x) => self.is_guard(*x) && x != r,
                        Cur::Const(x) | Cur::Mut(x) => self.is_any(*x) && x != r,
                        Cur::NullConst | Cur::NullMut | Cur::None => true,
                    }
            }
            Op::Rcu(c, s, d) => self.c_full(*c) && self.is_val(*s) && self.h_free(*d),
            Op::DropC(c) => self.c_full(*c),
        }
    }

    fn take_val(&mut self, r: usize) -> T {
        match self.hand[r].take() {
            Some(H::Val(t)) => t,
            _ => unreachable!(),
        }
    }
    fn take_guard(&mut self, r: usize) -> Guard<T, S> {
        match self.hand[r].take() {
            Some(H::Guard(g)) => g,
            _ => unreachable!(),
        }
    }
    fn raw_of(&self, r: usize) -> *mut Obj {
        match self.hand[r].as_ref().unwrap() {
            H::Val(t) => T::as_ptr(t),
            H::Guard(g) => T::as_ptr(&**g),
        }
    }

    /// identity of what a container holds, found out WITHOUT touching the calling thread's debt
    /// slots: another thread does the load_full
    fn peek_cont(&mut self, c: usize) -> T {
        let cont = self.cont[c].as_ref().unwrap();
        std::thread::scope(|s| s.spawn(|| cont.load_full()).join().unwrap())
    }

    fn step(&mut self, op: &Op) -> Res {
        if !self.valid(op) {
            return Res::Invalid;
        }
        match op.clone() {
            Op::Alloc(r) => {
                let a = Arc::new(Obj(self.objs.len() as u32));
                let id = self.register(&a);
                self.hand[r] = Some(H::Val(T::mk(Some(a))));
                Res::Ptr(Some(id))
            }
            Op::Null(r) => {
                assert!(T::NULLABLE);
                self.hand[r] = Some(H::Val(T::mk(None)));
                Res::Ptr(None)
            }
            Op::Clone(s, d) => {
                let t = match self.hand[s].as_ref().unwrap() {
                    H::Val(t) => t.clone(),
                    _ => unreachable!(),
                };
                self.hand[d] = Some(H::Val(t));
                Res::Ptr(self.hid(d))
            }
            Op::Drop(r) => {
                drop(self.hand[r].take());
                Res::Unit
            }
            Op::New(c, r) => {
                let t = self.take_val(r);
                self.cont[c] = Some(ArcSwapAny::new(t));
                Res::Unit
            }
            Op::FromPointee(c) => {
                self.cont[c] = Some(T::cont_from_pointee::<S>(Obj(self.objs.len() as u32)));
                let t = self.peek_cont(c);
                let id = self.register(t.peek().expect("from_pointee stored null"));
                drop(t);
                Res::Ptr(Some(id))
            }
            Op::Empty(c) => {
                self.cont[c] = Some(T::cont_empty::<S>());
                let t = self.peek_cont(c);
                let id = self.id_of(&t);
                Res::Ptr(id)
            }
            Op::Load(c, d) => {
                let g = self.cont[c].as_ref().unwrap().load();
                self.hand[d] = Some(H::Guard(g));
                Res::Ptr(self.hid(d))
            }
            Op::LoadFull(c, d) => {
                let t = self.cont[c].as_ref().unwrap().load_full();
                self.hand[d] = Some(H::Val(t));
                Res::Ptr(self.hid(d))
            }
            Op::GuardInto(r) => {
                let g = self.take_guard(r);
                self.hand[r] = Some(H::Val(Guard::into_inner(g)));
                Res::Ptr(self.hid(r))
            }
            Op::GuardFrom(r) => {
                let t = self.take_val(r);
                self.hand[r] = Some(H::Guard(Guard::from_inner(t)));
                Res::Ptr(self.hid(r))
            }
            Op::Store(c, r) => {
                let t = self.take_val(r);
                self.cont[c].as_ref().unwrap().store(t);
                Res::Unit
            }
            Op::Swap(c, r) => {
                let t = self.take_val(r);
                let old = self.cont[c].as_ref().unwrap().swap(t);
                self.hand[r] = Some(H::Val(old));
                Res::Ptr(self.hid(r))
            }
            Op::Cas(c, cu, r) => {
                let new = self.take_val(r);
                let cont = self.cont[c].as_ref().unwrap();
                let (prev, cur_raw): (Guard<T, S>, *const Obj) = match cu {
                    Cur::Arc(x) => {
                        let t = match self.hand[x].as_ref().unwrap() {
                            H::Val(t) => t,
                            _ => unreachable!(),
                        };
                        (cont.compare_and_swap(t, new), T::as_ptr(t) as *const Obj)
                    }
                    Cur::GuardRef(x) => {
                        let g = match self.hand[x].as_ref().unwrap() {
                            H::Guard(g) => g,
                            _ => unreachable!(),
                        };
                        (S::cas_gref(cont, g, new), T::as_ptr(&**g) as *const Obj)
                    }
                    Cur::GuardVal(x) => {
                        let raw = self.raw_of(x) as *const Obj;
                        let g = match self.hand[x].take() {
                            Some(H::Guard(g)) => g,
                            _ => unreachable!(),
                        };
                        (S::cas_gval(cont, g, new), raw)
                    }
                    Cur::Const(x) => {
                        let p = self.raw_of(x) as *const Obj;
                        (cont.compare_and_swap(p, new), p)
                    }
                    Cur::Mut(x) => {
                        let p: *mut Obj = self.raw_of(x);
                        (cont.compare_and_swap(p, new), p as *const Obj)
                    }
                    Cur::NullConst => (cont.compare_and_swap(std::ptr::null::<Obj>(), new), std::ptr::null()),
                    Cur::NullMut => (cont.compare_and_swap(std::ptr::null_mut::<Obj>(), new), std::ptr::null()),
                    Cur::None => (cont.compare_and_swap(&None::<Arc<Obj>>, new), std::ptr::null()),
                };
                // how a program finds out whether the exchange happened: pointer equality of the result with current
                let ok = std::ptr::eq(T::as_ptr(&*prev) as *const Obj, cur_raw);
                self.hand[r] = Some(H::Guard(prev));
                Res::Cas(self.hid(r), ok)
            }
            Op::Rcu(c, s, d) => {
                let src = match self.hand[s].as_ref().unwrap() {
                    H::Val(t) => t,
                    _ => unreachable!(),
                };
                let old = self.cont[c].as_ref().unwrap().rcu(|_| T::clone(src));
                self.hand[d] = Some(H::Val(old));
                Res::Ptr(self.hid(d))
            }
            Op::IntoInner(c, d) => {
                let t = self.cont[c].take().unwrap().into_inner();
                self.hand[d] = Some(H::Val(t));
                Res::Ptr(self.hid(d))
            }
            Op::DropC(c) => {
                drop(self.cont[c].take());
                Res::Unit
            }
        }
    }

    fn line(&self, n: usize, res: &Res) -> String {
        let p = |x: &Option<usize>| match x {
            Some(i) => format!("@{}", i),
            None => "null".to_string(),
        };
        let r = match res {
            Res::Invalid => "inv".to_string(),
            Res::Unit => "unit".to_string(),
            Res::Ptr(x) => format!("p={}", p(x)),
            Res::Cas(x, ok) => format!("cas={},{}", p(x), if *ok { 1 } else { 0 }),
        };
        let counts: Vec<String> = self.objs.iter().map(|w| w.strong_count().to_string()).collect();
        format!("{} {} | {}", n, r, counts.join(" "))
    }
}

fn run<T: Flav, S: CasForms<T> + Default + Send + Sync + 'static>(p: &Prog, sink: &Mutex<String>)
where
    ArcSwapAny<T, S>: Sync,
{
    let mut m: Machine<T, S> = Machine::new(p.ncont, p.nhand);
    for (n, op) in p.ops.iter().enumerate() {
        let res = m.step(op);
        // line by line into the shared sink: what was observed before a panic is not lost
        let l = m.line(n, &res);
        writeln!(sink.lock().unwrap(), "{}", l).unwrap();
    }
    let mut out = String::new();
    // whatever the program left: guards first (they may hold debts of this thread), then values, then containers
    for h in m.hand.iter_mut() {
        drop(h.take());
    }
    for c in m.cont.iter_mut() {
        drop(c.take());
    }
    let left: Vec<String> = m.objs.iter().map(|w| w.strong_count().to_string()).collect();
    writeln!(out, "left | {}", left.join(" ")).unwrap();
    sink.lock().unwrap().push_str(&out);
}

fn run_strategy<S: CasForms<Arc<Obj>> + CasForms<Option<Arc<Obj>>> + Default + Send + Sync + 'static>(
    p: &Prog,
    sink: &Mutex<String>,
) {
    if p.opt {
        run::<Option<Arc<Obj>>, S>(p, sink)
    } else {
        run::<Arc<Obj>, S>(p, sink)
    }
}

// Every other weak compare-exchange of the crate fails spuriously (the shim honours the request only
// for `compare_exchange_weak`): code that uses the weak form must retry, so the results - returned
// identities, verdicts, counts - must not change; a weak exchange without a retry loop shows up as a
// compare_and_swap that reports success without having stored.
#[cfg(arc_swap_verif)]
static WEAK_CALLS: std::sync::atomic::AtomicUsize = std::sync::atomic::AtomicUsize::new(0);
#[cfg(arc_swap_verif)]
fn hook_pre(a: &arc_swap::verif::Access) -> arc_swap::verif::Decision {
    if matches!(a.op, arc_swap::verif::Op::CasWeak) {
        let n = WEAK_CALLS.fetch_add(1, std::sync::atomic::Ordering::Relaxed);
        if n % 2 == 0 {
            return arc_swap::verif::Decision::SpuriousFail;
        }
    }
    arc_swap::verif::Decision::Proceed
}
#[cfg(arc_swap_verif)]
fn hook_post(_: &arc_swap::verif::Access, _: usize, _: bool) {}
#[cfg(arc_swap_verif)]
static HOOKS: arc_swap::verif::Hooks = arc_swap::verif::Hooks { pre: hook_pre, post: hook_post };

fn main() {
    // the second build of this harness (--cfg arc_swap_verif) injects the spurious failures; the first
    // one runs the crate exactly as users build it
    #[cfg(arc_swap_verif)]
    arc_swap::verif::install(&HOOKS);
    let args: Vec<String> = std::env::args().collect();
    let text = std::fs::read_to_string(&args[1]).expect("programs file");
    let first: usize = args.get(2).map(|s| s.parse().unwrap()).unwrap_or(0);
    let progs = Arc::new(parse(&text));
    let stdout = std::io::stdout();
    for idx in first..progs.len() {
        for st in ["default", "nofast", "rwlock"] {
            {
                let mut o = stdout.lock();
                writeln!(o, "prog {} {}", progs[idx].id, st).unwrap();
                o.flush().unwrap();
            }
            let pr = Arc::clone(&progs);
            let sink = Arc::new(Mutex::new(String::new()));
            let sink2 = Arc::clone(&sink);
            let h = std::thread::spawn(move || {
                let p = &pr[idx];
                match st {
                    "default" => run_strategy::<DefaultStrategy>(p, &sink2),
                    "nofast" => run_strategy::<FillFastSlots>(p, &sink2),
                    _ => run_strategy::<RwLock<()>>(p, &sink2),
                }
            });
            let res = h.join();
            let text = match sink.lock() {
                Ok(g) => g.clone(),
                Err(poisoned) => poisoned.into_inner().clone(),
            };
            let mut o = stdout.lock();
            o.write_all(text.as_bytes()).unwrap();
            match res {
                Ok(()) => writeln!(o, "end {} {}", progs[idx].id, st).unwrap(),
                Err(_) => writeln!(o, "panic {} {}", progs[idx].id, st).unwrap(),
            }
            o.flush().unwrap();
        }
    }
}
