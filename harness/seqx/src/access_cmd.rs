//! `seqx access <cases-file>`: C17 differential harness.
//!
//! A case: container flavour (`arc` = ArcSwapAny<Arc<Tree>,S>, `opt` = ArcSwapAny<Option<Arc<Tree>>,S>),
//! strategy, number of worker threads, initial value, a list of accessor chains built from the
//! real types of `arc_swap::access` (static dispatch through `Map`, `&`, `Arc`, `Box`;
//! dynamic through `Box/Arc/& dyn DynAccess`, `AccessConvert`; `Constant`), and a list of
//! operations executed one at a time, each on a given worker thread (real OS threads, each with
//! its own debt node).  After the construction and after every operation one row is printed:
//! cumulative atomic loads / swaps of the container's pointer (counted through the
//! `arc_swap_verif` hook shim), the strong count of every object (through `Weak`), and what
//! every live projection guard dereferences to (node id + 1; 0 = no such guard).
#![allow(deprecated)]
use arc_swap::access::{Access, AccessConvert, Constant, DynAccess, Map};
use arc_swap::strategy::test_strategies::FillFastSlots;
use arc_swap::strategy::Strategy;
use arc_swap::verif::{self, Decision, Hooks, Op};
use arc_swap::{ArcSwapAny, DefaultStrategy};
use serde_json::{json, Value};
use std::collections::HashMap;
use std::marker::PhantomData;
use std::ops::Deref;
use std::sync::atomic::{AtomicUsize, Ordering};
use std::sync::mpsc::{channel, Receiver, Sender};
use std::sync::{Arc, RwLock, Weak};

pub const UAF: u64 = 4294967295;

#[derive(Clone, Debug, Default, PartialEq)]
pub struct Tree {
    pub id: u64,
    pub kids: Vec<Tree>,
}
static NULL_TREE: Tree = Tree { id: 0, kids: Vec::new() };
impl Tree {
    fn kid(&self, i: usize) -> &Tree {
        self.kids.get(i).unwrap_or(&NULL_TREE)
    }
    fn parse(v: &Value) -> Tree {
        // [id, [kids...]]
        Tree {
            id: v[0].as_u64().unwrap_or(0),
            kids: v[1].as_array().map(|a| a.iter().map(Tree::parse).collect()).unwrap_or_default(),
        }
    }
}

fn kid_fn(i: usize) -> impl Fn(&Tree) -> &Tree + Clone + Send + Sync + 'static {
    move |t| t.kid(i)
}
fn unarc(a: &Arc<Tree>) -> &Tree {
    a
}
fn unopt(o: &Option<Arc<Tree>>) -> &Tree {
    match o {
        Some(a) => a,
        None => &NULL_TREE,
    }
}

// ------------------------------------------------------------------ counting hook
static TARGET: AtomicUsize = AtomicUsize::new(0);
static READS: AtomicUsize = AtomicUsize::new(0);
static SWAPS: AtomicUsize = AtomicUsize::new(0);

fn hook_pre(a: &verif::Access) -> Decision {
    if a.addr == TARGET.load(Ordering::Relaxed) {
        match a.op {
            Op::Load => {
                READS.fetch_add(1, Ordering::Relaxed);
            }
            _ => {
                SWAPS.fetch_add(1, Ordering::Relaxed);
            }
        }
    }
    Decision::Proceed
}
fn hook_post(_: &verif::Access, _: usize, _: bool) {}
static HOOKS: Hooks = Hooks { pre: hook_pre, post: hook_post };

// ------------------------------------------------------------------ type-erased view of an accessor
type BoxGuard = Box<dyn Deref<Target = Tree>>;

/// What the harness needs from an accessor of whatever static type: load a guard.  The guard
/// is the accessor's own `Access::Guard`, only boxed by the harness to store it in a table.
pub trait Erased: Sync {
    fn load_boxed(&self) -> BoxGuard;
}
impl<A> Erased for A
where
    A: Access<Tree> + Sync,
    A::Guard: 'static,
{
    fn load_boxed(&self) -> BoxGuard {
        Box::new(Access::load(self))
    }
}

#[derive(Clone, Debug)]
pub enum Wrap {
    Map(usize),
    Ref,
    Arc,
    Box,
    DynBox,
    DynArc,
    DynRef,
    Conv,
    ConvBox,
    ConvArc,
}

fn parse_wrap(v: &Value) -> Result<Wrap, String> {
    Ok(match v[0].as_str().ok_or("wrap")? {
        "map" => Wrap::Map(v[1].as_u64().ok_or("map index")? as usize),
        "ref" => Wrap::Ref,
        "arc" => Wrap::Arc,
        "box" => Wrap::Box,
        "dynbox" => Wrap::DynBox,
        "dynarc" => Wrap::DynArc,
        "dynref" => Wrap::DynRef,
        "conv" => Wrap::Conv,
        "convbox" => Wrap::ConvBox,
        "convarc" => Wrap::ConvArc,
        w => return Err(format!("unknown wrapper {}", w)),
    })
}

/// Type-level bound on the number of wrappers (each wrapper changes the static type, so the
/// recursion has to be bounded for monomorphization).
pub struct Z;
pub struct S<N>(PhantomData<N>);
pub type D2 = S<S<Z>>;
pub type D3 = S<D2>;
pub type D4 = S<D3>;

pub trait Depth {
    const N: usize;
    fn build<'x, A>(a: A, rest: &[Wrap], k: &mut dyn FnMut(&dyn Erased))
    where
        A: Access<Tree> + Send + Sync + 'x,
        A::Guard: 'static;
}
impl Depth for Z {
    const N: usize = 0;
    fn build<'x, A>(a: A, rest: &[Wrap], k: &mut dyn FnMut(&dyn Erased))
    where
        A: Access<Tree> + Send + Sync + 'x,
        A::Guard: 'static,
    {
        assert!(rest.is_empty(), "chain deeper than the compiled bound");
        k(&a)
    }
}
impl<N: Depth> Depth for S<N> {
    const N: usize = N::N + 1;
    fn build<'x, A>(a: A, rest: &[Wrap], k: &mut dyn FnMut(&dyn Erased))
    where
        A: Access<Tree> + Send + Sync + 'x,
        A::Guard: 'static,
    {
        let (w, rest) = match rest.split_first() {
            None => return k(&a),
            Some(x) => x,
        };
        match *w {
            Wrap::Map(i) => N::build(Map::new(a, kid_fn(i)), rest, k),
            Wrap::Ref => N::build(&a, rest, k),
            Wrap::Arc => N::build(Arc::new(a), rest, k),
            Wrap::Box => N::build(Box::new(a), rest, k),
            Wrap::DynBox => {
                let b: Box<dyn DynAccess<Tree> + Send + Sync + '_> = Box::new(a);
                N::build(b, rest, k)
            }
            Wrap::DynArc => {
                let b: Arc<dyn DynAccess<Tree> + Send + Sync + '_> = Arc::new(a);
                N::build(b, rest, k)
            }
            Wrap::DynRef => {
                let r: &(dyn DynAccess<Tree> + Send + Sync + '_) = &a;
                N::build(r, rest, k)
            }
            Wrap::Conv => N::build(AccessConvert(&a), rest, k),
            Wrap::ConvBox => {
                let b: Box<dyn DynAccess<Tree> + Send + Sync + '_> = Box::new(a);
                N::build(AccessConvert(b), rest, k)
            }
            Wrap::ConvArc => N::build(AccessConvert(Arc::new(a)), rest, k),
        }
    }
}

// ------------------------------------------------------------------ containers of both flavours
pub trait Cont: Sync {
    fn store_val(&self, v: Option<Arc<Tree>>);
    fn addr(&self) -> usize;
    /// builds the accessor for a base kind and hands it to `k`
    fn base<Dp: Depth>(&self, kind: &str, wraps: &[Wrap], k: &mut dyn FnMut(&dyn Erased)) -> Result<(), String>;
}

impl<St> Cont for ArcSwapAny<Arc<Tree>, St>
where
    St: Strategy<Arc<Tree>> + Send + Sync + 'static,
{
    fn store_val(&self, v: Option<Arc<Tree>>) {
        self.store(v.expect("null stored into the arc flavour"))
    }
    fn addr(&self) -> usize {
        self.verif_storage_addr()
    }
    fn base<Dp: Depth>(&self, kind: &str, wraps: &[Wrap], k: &mut dyn FnMut(&dyn Erased)) -> Result<(), String> {
        match kind {
            // Access<Tree> for ArcSwapAny<Arc<Tree>, S> (DirectDeref), through `&`
            "direct" => Dp::build(self, wraps, k),
            // Access<Arc<Tree>> for ArcSwapAny (its own Guard), then ArcSwapAny::map
            "guardmap" => Dp::build(self.map(unarc as fn(&Arc<Tree>) -> &Tree), wraps, k),
            _ => return Err(format!("base {} not available for the arc flavour", kind)),
        }
        Ok(())
    }
}

impl<St> Cont for ArcSwapAny<Option<Arc<Tree>>, St>
where
    St: Strategy<Option<Arc<Tree>>> + Send + Sync + 'static,
{
    fn store_val(&self, v: Option<Arc<Tree>>) {
        self.store(v)
    }
    fn addr(&self) -> usize {
        self.verif_storage_addr()
    }
    fn base<Dp: Depth>(&self, kind: &str, wraps: &[Wrap], k: &mut dyn FnMut(&dyn Erased)) -> Result<(), String> {
        match kind {
            "optmap" => Dp::build(self.map(unopt as fn(&Option<Arc<Tree>>) -> &Tree), wraps, k),
            _ => return Err(format!("base {} not available for the option flavour", kind)),
        }
        Ok(())
    }
}

struct Env<'a> {
    head: &'a (dyn Erased + 'a),
    tail: Option<&'a Env<'a>>,
}

fn with_accs<C: Cont, Dp: Depth>(
    specs: &[Value],
    i: usize,
    env: Option<&Env<'_>>,
    c: &C,
    run: &mut dyn FnMut(Vec<&dyn Erased>),
    err: &mut Option<String>,
) {
    if i == specs.len() {
        let mut v = Vec::new();
        let mut e = env;
        while let Some(x) = e {
            v.push(x.head);
            e = x.tail;
        }
        v.reverse();
        run(v);
        return;
    }
    let spec = &specs[i];
    let wraps: Result<Vec<Wrap>, String> = spec["wraps"].as_array().map(|a| a.iter().map(parse_wrap).collect()).unwrap_or(Ok(vec![]));
    let wraps = match wraps {
        Ok(w) => w,
        Err(e) => {
            *err = Some(e);
            return;
        }
    };
    if wraps.len() > Dp::N {
        *err = Some(format!("accessor {} has {} wrappers, compiled bound is {}", i, wraps.len(), Dp::N));
        return;
    }
    let base = spec["base"].as_str().unwrap_or("");
    let mut inner_err = None;
    let mut k = |e: &dyn Erased| {
        let env2 = Env { head: e, tail: env };
        with_accs::<C, Dp>(specs, i + 1, Some(&env2), c, run, &mut inner_err);
    };
    let r = if base == "const" {
        Dp::build(Constant(Tree::parse(&spec["value"])), &wraps, &mut k);
        Ok(())
    } else {
        c.base::<Dp>(base, &wraps, &mut k)
    };
    if let Err(e) = r {
        *err = Some(e);
    }
    if inner_err.is_some() {
        *err = inner_err;
    }
}

// ------------------------------------------------------------------ worker threads
enum Cmd {
    Load(usize, usize),              // accessor index, guard id
    Read(usize),                     // guard id -> node id
    Drop(usize),                     // guard id
    Store(Option<Arc<Tree>>),        // the value is moved into the container on this thread
    Quit,
}

fn worker(accs: &[&dyn Erased], c: &dyn ContDyn, rx: Receiver<Cmd>, tx: Sender<u64>) {
    let mut guards: HashMap<usize, BoxGuard> = HashMap::new();
    for cmd in rx {
        match cmd {
            Cmd::Load(a, g) => {
                guards.insert(g, accs[a].load_boxed());
                tx.send(0).unwrap();
            }
            Cmd::Read(g) => {
                let id = guards.get(&g).map(|b| b.id).unwrap_or(UAF);
                tx.send(id).unwrap();
            }
            Cmd::Drop(g) => {
                guards.remove(&g);
                tx.send(0).unwrap();
            }
            Cmd::Store(v) => {
                c.store_dyn(v);
                tx.send(0).unwrap();
            }
            Cmd::Quit => break,
        }
    }
    drop(guards);
}

/// object-safe part of Cont
pub trait ContDyn: Sync {
    fn store_dyn(&self, v: Option<Arc<Tree>>);
}
impl<C: Cont> ContDyn for C {
    fn store_dyn(&self, v: Option<Arc<Tree>>) {
        self.store_val(v)
    }
}

struct GuardInfo {
    owner: usize,
    snapshot: Option<usize>, // object current when the guard was loaded (None: null or a Constant chain)
    live: bool,
}

fn run_ops<C: Cont>(case: &Value, c: &C, accs: Vec<&dyn Erased>, mut objs: Vec<Weak<Tree>>, mut cur: Option<usize>) -> Result<Vec<Vec<u64>>, String> {
    let nthr = case["threads"].as_u64().unwrap_or(1) as usize;
    let ops = case["ops"].as_array().ok_or("ops")?;
    let specs = case["accs"].as_array().ok_or("accs")?;
    let nobj_total = objs.len() + ops.iter().filter(|o| matches!(o[0].as_str(), Some("new") | Some("storenew"))).count();
    let ng_total = ops.iter().filter(|o| o[0].as_str() == Some("load")).count();
    let mut rows = Vec::new();
    let mut result: Result<(), String> = Ok(());
    std::thread::scope(|sc| {
        let mut txs = Vec::new();
        let mut rxs = Vec::new();
        for _ in 0..nthr {
            let (tx, rx) = channel::<Cmd>();
            let (rtx, rrx) = channel::<u64>();
            let accs_ref = &accs;
            let cref: &dyn ContDyn = c;
            sc.spawn(move || worker(accs_ref, cref, rx, rtx));
            txs.push(tx);
            rxs.push(rrx);
        }
        let call = |t: usize, cmd: Cmd| -> u64 {
            txs[t].send(cmd).unwrap();
            rxs[t].recv().unwrap()
        };
        let mut guards: Vec<GuardInfo> = Vec::new();
        let mut handles: Vec<Option<Arc<Tree>>> = Vec::new();
        let mut handle_obj: Vec<usize> = Vec::new();
        let observe = |objs: &Vec<Weak<Tree>>, guards: &Vec<GuardInfo>| -> Vec<u64> {
            // the guards are dereferenced first, the counters read afterwards: a deref that
            // touched the container again would show up in this very row
            let mut views = Vec::new();
            for g in 0..ng_total {
                let v = match guards.get(g) {
                    Some(gi) if gi.live => {
                        // never dereference a guard whose snapshot object has been freed
                        let dead = gi.snapshot.map(|o| objs[o].strong_count() == 0).unwrap_or(false);
                        if dead {
                            UAF
                        } else {
                            let id = call(gi.owner, Cmd::Read(g));
                            if id == UAF {
                                UAF
                            } else {
                                id + 1
                            }
                        }
                    }
                    _ => 0,
                };
                views.push(v);
            }
            let mut row = vec![READS.load(Ordering::SeqCst) as u64, SWAPS.load(Ordering::SeqCst) as u64];
            for i in 0..nobj_total {
                row.push(objs.get(i).map(|w| w.strong_count() as u64).unwrap_or(0));
            }
            row.extend(views);
            row
        };
        rows.push(observe(&objs, &guards));
        for op in ops {
            let name = op[0].as_str().unwrap_or("");
            let r: Result<(), String> = (|| {
                match name {
                    "load" => {
                        let t = op[1].as_u64().ok_or("load thread")? as usize;
                        let a = op[2].as_u64().ok_or("load accessor")? as usize;
                        if t >= nthr || a >= accs.len() {
                            return Err("load: bad thread or accessor".to_string());
                        }
                        let g = guards.len();
                        call(t, Cmd::Load(a, g));
                        let is_const = specs[a]["base"].as_str() == Some("const");
                        guards.push(GuardInfo { owner: t, snapshot: if is_const { None } else { cur }, live: true });
                    }
                    "drop" => {
                        let g = op[1].as_u64().ok_or("drop guard")? as usize;
                        if g < guards.len() && guards[g].live {
                            call(guards[g].owner, Cmd::Drop(g));
                            guards[g].live = false;
                        }
                    }
                    "new" => {
                        let a = Arc::new(Tree::parse(&op[1]));
                        objs.push(Arc::downgrade(&a));
                        handle_obj.push(objs.len() - 1);
                        handles.push(Some(a));
                    }
                    "droph" => {
                        let h = op[1].as_u64().ok_or("droph")? as usize;
                        if h < handles.len() {
                            handles[h] = None;
                        }
                    }
                    "storenew" => {
                        let t = op[1].as_u64().ok_or("store thread")? as usize;
                        let a = Arc::new(Tree::parse(&op[2]));
                        objs.push(Arc::downgrade(&a));
                        cur = Some(objs.len() - 1);
                        call(t, Cmd::Store(Some(a)));
                    }
                    "storeh" => {
                        let t = op[1].as_u64().ok_or("store thread")? as usize;
                        let h = op[2].as_u64().ok_or("store handle")? as usize;
                        if let Some(Some(a)) = handles.get(h) {
                            cur = Some(handle_obj[h]);
                            call(t, Cmd::Store(Some(a.clone())));
                        }
                    }
                    "storenull" => {
                        let t = op[1].as_u64().ok_or("store thread")? as usize;
                        cur = None;
                        call(t, Cmd::Store(None));
                    }
                    _ => return Err(format!("unknown op {}", name)),
                }
                Ok(())
            })();
            if let Err(e) = r {
                result = Err(e);
                break;
            }
            rows.push(observe(&objs, &guards));
        }
        // release everything on the owning threads before they exit
        for (g, gi) in guards.iter().enumerate() {
            if gi.live {
                call(gi.owner, Cmd::Drop(g));
            }
        }
        for tx in &txs {
            let _ = tx.send(Cmd::Quit);
        }
    });
    result.map(|_| rows)
}

fn run_flavoured<C: Cont, Dp: Depth>(case: &Value, c: C, objs: Vec<Weak<Tree>>, cur: Option<usize>) -> Result<Value, String> {
    TARGET.store(c.addr(), Ordering::SeqCst);
    READS.store(0, Ordering::SeqCst);
    SWAPS.store(0, Ordering::SeqCst);
    let specs = case["accs"].as_array().ok_or("accs")?.clone();
    let mut out: Option<Result<Vec<Vec<u64>>, String>> = None;
    let mut err = None;
    {
        let mut run = |accs: Vec<&dyn Erased>| {
            out = Some(run_ops(case, &c, accs, objs.clone(), cur));
        };
        with_accs::<C, Dp>(&specs, 0, None, &c, &mut run, &mut err);
    }
    TARGET.store(0, Ordering::SeqCst);
    drop(c);
    if let Some(e) = err {
        return Err(e);
    }
    match out {
        Some(Ok(rows)) => Ok(json!({"id": case["id"], "rows": rows})),
        Some(Err(e)) => Err(e),
        None => Err("accessors were not built".to_string()),
    }
}

fn run_case<St, Dp>(case: &Value) -> Result<Value, String>
where
    St: Strategy<Arc<Tree>> + Strategy<Option<Arc<Tree>>> + Default + Send + Sync + 'static,
    Dp: Depth,
{
    let init = &case["init"];
    let mut objs = Vec::new();
    let first: Option<Arc<Tree>> = if init.is_null() { None } else { Some(Arc::new(Tree::parse(init))) };
    if let Some(a) = &first {
        objs.push(Arc::downgrade(a));
    }
    let cur = first.as_ref().map(|_| 0usize);
    match case["flavour"].as_str().unwrap_or("arc") {
        "arc" => {
            let c: ArcSwapAny<Arc<Tree>, St> = ArcSwapAny::from(first.ok_or("the arc flavour needs an initial value")?);
            run_flavoured::<_, Dp>(case, c, objs, cur)
        }
        "opt" => {
            let c: ArcSwapAny<Option<Arc<Tree>>, St> = ArcSwapAny::from(first);
            run_flavoured::<_, Dp>(case, c, objs, cur)
        }
        f => Err(format!("unknown flavour {}", f)),
    }
}

pub fn main(path: &str) -> i32 {
    let text = match std::fs::read_to_string(path) {
        Ok(t) => t,
        Err(e) => {
            eprintln!("cannot read {}: {}", path, e);
            return 2;
        }
    };
    verif::install(&HOOKS);
    let mut rc = 0;
    for line in text.lines() {
        if line.trim().is_empty() {
            continue;
        }
        let case: Value = match serde_json::from_str(line) {
            Ok(v) => v,
            Err(e) => {
                eprintln!("bad case line: {}", e);
                return 2;
            }
        };
        let res = match case["strategy"].as_str().unwrap_or("default") {
            "default" => run_case::<DefaultStrategy, D4>(&case),
            "rwlock" => run_case::<RwLock<()>, D2>(&case),
            "nofast" => run_case::<FillFastSlots, D2>(&case),
            s => Err(format!("unknown strategy {}", s)),
        };
        match res {
            Ok(v) => println!("{}", v),
            Err(e) => {
                println!("{}", json!({"id": case["id"], "error": e}));
                rc = 3;
            }
        }
    }
    rc
}
