//! `seqx constmove`: C17, the clauses "Constant always yields its own value" and "dereferences for
//! its entire lifetime to the projection of one single snapshot" for guards whose snapshot is
//! stored INLINE in the guard (Map over Constant at any depth, also through Box<dyn DynAccess>, and
//! a projection that returns the Arc stored inside a Guard): the guard is moved (returned from a
//! function, boxed, pushed into a growing Vec) between and after dereferences.  A guard that caches
//! a pointer into itself breaks here; the heap-backed cases of the differential run do not see it.
use arc_swap::access::{Access, Constant, DynAccess, Map};
use arc_swap::ArcSwap;
use std::ops::Deref;
use std::sync::Arc;

#[derive(Clone, Debug, PartialEq)]
struct Inline {
    a: [u64; 4],
    b: u64,
    c: (u32, u32),
}

fn mk(seed: u64) -> Inline {
    Inline { a: [seed, seed + 1, seed + 2, seed + 3], b: seed * 7 + 1, c: (seed as u32 ^ 0x55, seed as u32 + 9) }
}

#[inline(never)]
fn churn_stack(n: u64) -> u64 {
    // overwrite the stack area a moved-from guard used to occupy
    let junk = [n.wrapping_mul(0x9E37_79B9_7F4A_7C15); 64];
    junk.iter().fold(0u64, |x, y| x ^ y.rotate_left(7))
}

#[inline(never)]
fn load_and_return<A: Access<u64>>(a: &A) -> A::Guard {
    let g = a.load();
    let _ = churn_stack(3);
    g
}

fn check_guard<G: Deref<Target = u64>>(g: G, want: u64, what: &str) -> Result<(), String> {
    if *g != want {
        return Err(format!("{}: right after load got {} want {}", what, *g, want));
    }
    let boxed = Box::new(g);
    let _ = churn_stack(want);
    if **boxed != want {
        return Err(format!("{}: after moving the guard into a Box got {} want {}", what, **boxed, want));
    }
    let mut v = Vec::new();
    v.push(*boxed);
    for _ in 0..40 {
        let _ = churn_stack(want + 1);
    }
    let moved = v.pop().unwrap();
    if *moved != want {
        return Err(format!("{}: after moving the guard through a Vec got {} want {}", what, *moved, want));
    }
    Ok(())
}

pub fn main() -> i32 {
    let mut n = 0;
    let mut run = |r: Result<(), String>| -> bool {
        n += 1;
        if let Err(e) = r {
            println!("CONSTMOVE-FAIL {}", e);
            false
        } else {
            true
        }
    };
    for seed in [1u64, 42, 7_000_000_007] {
        let val = mk(seed);
        // depth 1: field of an inline constant
        let m1 = Map::new(Constant(val.clone()), |x: &Inline| &x.b);
        if !run(check_guard(load_and_return(&m1), val.b, "Map<Constant>")) { return 1; }
        // depth 2
        let m2 = Map::new(Map::new(Constant(val.clone()), |x: &Inline| &x.a), |a: &[u64; 4]| &a[2]);
        if !run(check_guard(load_and_return(&m2), val.a[2], "Map<Map<Constant>>")) { return 1; }
        // through dynamic dispatch
        let d: Box<dyn DynAccess<u64>> = Box::new(Map::new(Constant(val.clone()), |x: &Inline| &x.a[1]));
        let g = DynAccess::load(&*d);
        if !run(check_guard(g, val.a[1], "Box<dyn DynAccess> over Map<Constant>")) { return 1; }
        // Constant itself
        let c = Constant(val.b);
        if !run(check_guard(load_and_return(&c), val.b, "Constant")) { return 1; }
        // a projection that returns what is stored inside the Guard (the Arc), then a field behind it
        let s = ArcSwap::from_pointee(val.clone());
        let ma = Map::new(&s, |a: &Inline| &a.b);
        let g = Access::load(&ma);
        s.store(Arc::new(mk(seed + 100)));
        if !run(check_guard(g, val.b, "Map<&ArcSwap> across a store")) { return 1; }
    }
    println!("CONSTMOVE-OK {}", n);
    0
}
