//! Sequential differential harness for C17 (Access/Map projections) and C20 (serde).
mod access_cmd;
mod constmove;
mod reent;
mod rwrace;
mod serde_cmd;
mod tok;

fn main() {
    let args: Vec<String> = std::env::args().collect();
    if args.len() >= 2 && args[1] == "rwrace" {
        std::process::exit(rwrace::main());
    }
    if args.len() >= 2 && args[1] == "constmove" {
        std::process::exit(constmove::main());
    }
    if args.len() >= 2 && args[1] == "reentrant" {
        std::process::exit(reent::main());
    }
    if args.len() < 3 {
        eprintln!("usage: seqx serde|access <cases-file>");
        std::process::exit(2);
    }
    let rc = match args[1].as_str() {
        "serde" => serde_cmd::main(&args[2]),
        "access" => access_cmd::main(&args[2]),
        _ => {
            eprintln!("unknown sub-command {}", args[1]);
            2
        }
    };
    std::process::exit(rc);
}
