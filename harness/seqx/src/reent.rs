//! `seqx reentrant`: C20, the clause "serializes as its currently stored pointer" read as
//! `container.load().serialize(..)`: the value being serialized is protected for the whole
//! serialization.  The pointee's `Serialize` impl replaces the container's value in the middle of
//! its own serialization (same thread, no concurrency needed) and then checks that it has not
//! been destroyed; without the guard of `load()` the store would drop the last reference.
use arc_swap::strategy::test_strategies::FillFastSlots;
use arc_swap::strategy::{DefaultStrategy, Strategy};
use arc_swap::{ArcSwapAny, RefCnt};
use serde::ser::{Serialize, SerializeStruct, Serializer};
use std::cell::RefCell;
use std::sync::atomic::{AtomicBool, AtomicUsize, Ordering::SeqCst};
use std::sync::{Arc, RwLock};

const N: usize = 64;
static DESTROYED: [AtomicBool; N] = {
    const F: AtomicBool = AtomicBool::new(false);
    [F; N]
};
static NEXT: AtomicUsize = AtomicUsize::new(0);
static BAD: AtomicUsize = AtomicUsize::new(0);

thread_local! {
    static HOOK: RefCell<Option<Box<dyn FnMut()>>> = RefCell::new(None);
}

pub struct P {
    id: usize,
    payload: Vec<u64>,
}
impl P {
    fn new() -> P {
        let id = NEXT.fetch_add(1, SeqCst) % N;
        DESTROYED[id].store(false, SeqCst);
        P { id, payload: vec![id as u64; 8] }
    }
}
impl Drop for P {
    fn drop(&mut self) {
        DESTROYED[self.id].store(true, SeqCst);
        for x in self.payload.iter_mut() {
            *x = u64::MAX;
        }
    }
}
impl Serialize for P {
    fn serialize<S: Serializer>(&self, s: S) -> Result<S::Ok, S::Error> {
        let hook = HOOK.with(|h| h.borrow_mut().take());
        if let Some(mut f) = hook {
            f(); // replaces the value of the container that is being serialized
        }
        if DESTROYED[self.id].load(SeqCst) || self.payload.iter().any(|&x| x != self.id as u64) {
            BAD.fetch_add(1, SeqCst);
        }
        let mut st = s.serialize_struct("P", 2)?;
        st.serialize_field("id", &(self.id as u64))?;
        st.serialize_field("payload", &self.payload)?;
        st.end()
    }
}

fn one<T, S>(mk: fn(P) -> T, held: usize) -> Result<(), String>
where
    T: RefCnt + Serialize + 'static,
    S: Strategy<T> + Default + 'static,
{
    let c: &'static ArcSwapAny<T, S> = Box::leak(Box::new(ArcSwapAny::with_strategy(mk(P::new()), S::default())));
    let guards: Vec<_> = (0..held).map(|_| c.load()).collect();
    let before = BAD.load(SeqCst);
    HOOK.with(|h| *h.borrow_mut() = Some(Box::new(move || c.store(mk(P::new())))));
    let txt = serde_json::to_string(c).map_err(|e| format!("serialize failed: {}", e))?;
    drop(guards);
    if BAD.load(SeqCst) != before {
        return Err(format!("the value was destroyed while the container was serializing it ({} guards held, output {})", held, txt));
    }
    // the container now holds the value stored by the hook and serializes it
    let again = serde_json::to_string(c).map_err(|e| format!("serialize failed: {}", e))?;
    if again == txt {
        return Err("the re-entrant store was lost".into());
    }
    Ok(())
}

pub fn main() -> i32 {
    let mut n = 0;
    for held in [0usize, 3, 8, 9] {
        let rs = [
            one::<Arc<P>, DefaultStrategy>(Arc::new, held).map_err(|e| format!("Arc/Default: {}", e)),
            one::<Option<Arc<P>>, DefaultStrategy>(|p| Some(Arc::new(p)), held).map_err(|e| format!("Option/Default: {}", e)),
            one::<Arc<P>, FillFastSlots>(Arc::new, held).map_err(|e| format!("Arc/FillFastSlots: {}", e)),
            one::<Arc<P>, RwLock<()>>(Arc::new, held).map_err(|e| format!("Arc/RwLock: {}", e)),
            one::<Option<Arc<P>>, RwLock<()>>(|p| Some(Arc::new(p)), held).map_err(|e| format!("Option/RwLock: {}", e)),
        ];
        for r in rs {
            n += 1;
            if let Err(e) = r {
                println!("REENTRANT-FAIL {}", e);
                return 1;
            }
        }
    }
    println!("REENTRANT-OK {}", n);
    0
}
