//! `seqx rwrace`: C20's quantifier "for every strategy that can be default-constructed" (and C14):
//! the lock-based strategy `RwLock<()>` must take its reference while it still holds the read lock.
//! A custom `RefCnt` pointee stops inside `inc` (the reference being taken by `load`) and gives a
//! writer 300 ms to complete a `store`; with the lock held the writer cannot, without it the value
//! is destroyed before the reader's increment.
use arc_swap::{ArcSwapAny, RefCnt};
use std::sync::atomic::{AtomicBool, AtomicIsize, AtomicUsize, Ordering::SeqCst};
use std::sync::RwLock;
use std::time::{Duration, Instant};

const N: usize = 16;
static COUNT: [AtomicIsize; N] = {
    const Z: AtomicIsize = AtomicIsize::new(0);
    [Z; N]
};
static NEXT: AtomicUsize = AtomicUsize::new(1);
static IN_INC: AtomicBool = AtomicBool::new(false);
static ARMED: AtomicBool = AtomicBool::new(false);
static WRITER_DONE: AtomicBool = AtomicBool::new(false);
static BAD: AtomicUsize = AtomicUsize::new(0);

pub struct P(usize);
pub struct Cell(#[allow(dead_code)] u8);

impl P {
    fn new() -> P {
        let k = NEXT.fetch_add(1, SeqCst);
        COUNT[k].store(1, SeqCst);
        P(k)
    }
}
impl Clone for P {
    fn clone(&self) -> P {
        if ARMED.swap(false, SeqCst) {
            IN_INC.store(true, SeqCst);
            let t0 = Instant::now();
            while !WRITER_DONE.load(SeqCst) && t0.elapsed() < Duration::from_millis(300) {
                std::thread::sleep(Duration::from_millis(1));
            }
        }
        if COUNT[self.0].fetch_add(1, SeqCst) <= 0 {
            BAD.fetch_add(1, SeqCst); // reference taken on a destroyed value
        }
        P(self.0)
    }
}
impl Drop for P {
    fn drop(&mut self) {
        COUNT[self.0].fetch_sub(1, SeqCst);
    }
}
unsafe impl RefCnt for P {
    type Base = Cell;
    fn into_ptr(me: P) -> *mut Cell {
        let k = me.0;
        std::mem::forget(me);
        (k * 16) as *mut Cell
    }
    fn as_ptr(me: &P) -> *mut Cell {
        (me.0 * 16) as *mut Cell
    }
    unsafe fn from_ptr(p: *const Cell) -> P {
        P(p as usize / 16)
    }
}

pub fn main() -> i32 {
    let c: &'static ArcSwapAny<P, RwLock<()>> = Box::leak(Box::new(ArcSwapAny::with_strategy(P::new(), RwLock::new(()))));
    ARMED.store(true, SeqCst);
    let w = std::thread::spawn(move || {
        let t0 = Instant::now();
        while !IN_INC.load(SeqCst) && t0.elapsed() < Duration::from_secs(5) {
            std::thread::yield_now();
        }
        c.store(P::new());
        WRITER_DONE.store(true, SeqCst);
    });
    let g = c.load();
    let seen = (*g).0;
    drop(g);
    w.join().unwrap();
    if BAD.load(SeqCst) != 0 || !IN_INC.load(SeqCst) {
        println!("RWRACE-FAIL the lock-based strategy took its reference on value {} after a concurrent store had destroyed it (bad={}, hook reached={})", seen, BAD.load(SeqCst), IN_INC.load(SeqCst));
        return 1;
    }
    println!("RWRACE-OK");
    0
}
