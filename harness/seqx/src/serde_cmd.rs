//! `seqx serde <cases-file>`: C20 differential harness.
//!
//! One JSON object per input line describes a case: pointee type, container flavour, strategy,
//! a pool of pointee values, the initial value and a list of operations.  After the
//! construction and after every operation the container is serialized (serde_json and the
//! token recorder), every object's strong count is read through a `Weak`, and the produced
//! JSON is deserialized into a fresh container (round trip) whose value and count are reported.
//! The same is printed for the plain pointers `T` holding each pool value (the reference).
#![allow(deprecated)]
use crate::tok::tokens;
use arc_swap::strategy::test_strategies::FillFastSlots;
use arc_swap::strategy::Strategy;
use arc_swap::{ArcSwapAny, DefaultStrategy, RefCnt};
use serde::de::DeserializeOwned;
use serde::{Deserialize, Serialize};
use serde_json::{json, Value};
use std::collections::BTreeMap;
use std::fmt::Debug;
use std::sync::{Arc, RwLock, Weak};

#[derive(Serialize, Deserialize, PartialEq, Debug, Clone)]
pub enum Kind {
    Unit,
    New(u8),
    Tup(i16, bool),
    Rec { x: u32, y: String },
}

#[derive(Serialize, Deserialize, PartialEq, Debug, Clone)]
pub struct Wrapped(pub u32);

#[derive(Serialize, Deserialize, PartialEq, Debug, Clone)]
pub struct Rec {
    pub id: u64,
    pub name: String,
    pub opt: Option<i64>,
    pub list: Vec<u32>,
    pub child: Option<Box<Rec>>,
    pub pair: (bool, i8),
    pub kind: Kind,
    pub map: BTreeMap<String, u64>,
    pub unit: (),
    pub ch: char,
    pub w: Wrapped,
}

/// The pointer type `T` of the container: `Arc<P>` or `Option<Arc<P>>`.
pub trait Flav<P>: RefCnt + Serialize + DeserializeOwned + Clone {
    fn mk(p: Option<P>) -> Option<Self>;
    fn arc(&self) -> Option<&Arc<P>>;
}
impl<P: Serialize + DeserializeOwned> Flav<P> for Arc<P> {
    fn mk(p: Option<P>) -> Option<Self> {
        p.map(Arc::new)
    }
    fn arc(&self) -> Option<&Arc<P>> {
        Some(self)
    }
}
impl<P: Serialize + DeserializeOwned> Flav<P> for Option<Arc<P>> {
    fn mk(p: Option<P>) -> Option<Self> {
        Some(p.map(Arc::new))
    }
    fn arc(&self) -> Option<&Arc<P>> {
        self.as_ref()
    }
}

fn ser_both<X: Serialize>(x: &X) -> Value {
    let j = match serde_json::to_string(x) {
        Ok(s) => json!(s),
        Err(e) => json!({ "err": e.to_string() }),
    };
    let t = match tokens(x) {
        Ok(s) => json!(s),
        Err(e) => json!({ "err": e.to_string() }),
    };
    json!({"json": j, "tok": t})
}

fn idx(v: &Value) -> Option<usize> {
    v.as_u64().map(|x| x as usize)
}

fn run_case<P, T, S>(case: &Value) -> Result<Value, String>
where
    P: Serialize + DeserializeOwned + PartialEq + Debug + Clone,
    T: Flav<P>,
    S: Strategy<T> + Default,
{
    let pool: Vec<P> = case["pool"]
        .as_array()
        .ok_or("pool")?
        .iter()
        .map(|v| serde_json::from_value::<P>(v.clone()).map_err(|e| format!("pool value: {}", e)))
        .collect::<Result<_, _>>()?;
    let mk = |k: Option<usize>| -> Result<T, String> {
        T::mk(k.map(|k| pool[k].clone())).ok_or_else(|| "null is not a value of this flavour".to_string())
    };
    // the reference: what the plain pointer serializes to
    let mut refs = Vec::new();
    for k in 0..pool.len() {
        refs.push(ser_both(&mk(Some(k))?));
    }
    let refnone = match T::mk(None) {
        Some(t) => ser_both(&t),
        None => Value::Null,
    };

    let mut objs: Vec<Weak<P>> = Vec::new();
    let first = mk(idx(&case["init"]))?;
    if let Some(a) = first.arc() {
        objs.push(Arc::downgrade(a));
    }
    let c: ArcSwapAny<T, S> = ArcSwapAny::from(first);
    let mut held = Vec::new();
    let mut steps = Vec::new();

    let observe = |c: &ArcSwapAny<T, S>, objs: &Vec<Weak<P>>, nheld: usize| -> Value {
        let counts0: Vec<usize> = objs.iter().map(|w| w.strong_count()).collect();
        let ser = ser_both(c);
        let counts: Vec<usize> = objs.iter().map(|w| w.strong_count()).collect();
        // round trip through JSON
        let de = match ser["json"].as_str() {
            None => json!({"ok": false, "err": "serialization failed"}),
            Some(text) => match serde_json::from_str::<ArcSwapAny<T, S>>(text) {
                Err(e) => json!({"ok": false, "err": e.to_string()}),
                Ok(c2) => {
                    let reser = ser_both(&c2);
                    let t2: T = c2.load_full();
                    let plain = ser_both(&t2);
                    let eq: Vec<usize> = match t2.arc() {
                        Some(a) => (0..pool.len()).filter(|k| pool[*k] == **a).collect(),
                        None => vec![],
                    };
                    let is_null = t2.arc().is_none();
                    drop(t2);
                    let inner: T = c2.into_inner();
                    let count = inner.arc().map(|a| Arc::strong_count(a) as i64).unwrap_or(-1);
                    let weak = inner.arc().map(|a| Arc::weak_count(a) as i64).unwrap_or(-1);
                    json!({"ok": true, "null": is_null, "eq": eq, "count": count, "weak": weak, "plain": plain, "reser": reser})
                }
            },
        };
        let counts_after: Vec<usize> = objs.iter().map(|w| w.strong_count()).collect();
        json!({"ser": ser, "counts_before": counts0, "counts": counts, "counts_after": counts_after, "held": nheld, "de": de})
    };

    steps.push(observe(&c, &objs, held.len()));
    for op in case["ops"].as_array().ok_or("ops")? {
        let name = op[0].as_str().ok_or("op name")?;
        match name {
            "new" => {
                let t = mk(Some(idx(&op[1]).ok_or("new k")?))?;
                if let Some(a) = t.arc() {
                    objs.push(Arc::downgrade(a));
                }
                c.store(t);
            }
            "null" => c.store(mk(None)?),
            "same" => c.store(c.load_full()),
            "loaddrop" => drop(c.load()),
            "hold" => held.push(c.load()),
            "release" => {
                if !held.is_empty() {
                    held.remove(0);
                }
            }
            _ => return Err(format!("unknown op {}", name)),
        }
        steps.push(observe(&c, &objs, held.len()));
    }
    drop(held);
    drop(c);
    let final_counts: Vec<usize> = objs.iter().map(|w| w.strong_count()).collect();
    Ok(json!({"id": case["id"], "refs": refs, "refnone": refnone, "steps": steps, "final_counts": final_counts}))
}

/// Deserialization from the reference texts: `de` cases carry the JSON text directly.
fn run_de<P, T, S>(case: &Value) -> Result<Value, String>
where
    P: Serialize + DeserializeOwned + PartialEq + Debug + Clone,
    T: Flav<P>,
    S: Strategy<T> + Default,
{
    let text = case["text"].as_str().ok_or("text")?;
    let plain = serde_json::from_str::<T>(text);
    let cont = serde_json::from_str::<ArcSwapAny<T, S>>(text);
    let r = match (plain, cont) {
        (Err(e1), Err(e2)) => json!({"plain_ok": false, "cont_ok": false, "plain_err": e1.to_string(), "cont_err": e2.to_string()}),
        (Ok(_), Err(e2)) => json!({"plain_ok": true, "cont_ok": false, "cont_err": e2.to_string()}),
        (Err(e1), Ok(_)) => json!({"plain_ok": false, "cont_ok": true, "plain_err": e1.to_string()}),
        (Ok(p), Ok(c)) => {
            let l = c.load_full();
            let same = match (p.arc(), l.arc()) {
                (None, None) => true,
                (Some(a), Some(b)) => **a == **b && !Arc::ptr_eq(a, b),
                _ => false,
            };
            let lp = ser_both(&l);
            let is_null = l.arc().is_none();
            drop(l);
            let inner = c.into_inner();
            let count = inner.arc().map(|a| Arc::strong_count(a) as i64).unwrap_or(-1);
            json!({"plain_ok": true, "cont_ok": true, "same_value": same, "null": is_null, "count": count, "plain": ser_both(&p), "cont": lp})
        }
    };
    Ok(json!({"id": case["id"], "de": r}))
}

macro_rules! dispatch_strategy {
    ($f:ident, $P:ty, $T:ty, $case:expr) => {
        match $case["strategy"].as_str().unwrap_or("default") {
            "default" => $f::<$P, $T, DefaultStrategy>($case),
            "rwlock" => $f::<$P, $T, RwLock<()>>($case),
            "nofast" => $f::<$P, $T, FillFastSlots>($case),
            s => Err(format!("unknown strategy {}", s)),
        }
    };
}
macro_rules! dispatch_flavour {
    ($f:ident, $P:ty, $case:expr) => {
        match $case["flavour"].as_str().unwrap_or("arc") {
            "arc" => dispatch_strategy!($f, $P, Arc<$P>, $case),
            "opt" => dispatch_strategy!($f, $P, Option<Arc<$P>>, $case),
            s => Err(format!("unknown flavour {}", s)),
        }
    };
}
macro_rules! dispatch {
    ($f:ident, $case:expr) => {
        match $case["ptype"].as_str().unwrap_or("") {
            "u64" => dispatch_flavour!($f, u64, $case),
            "str" => dispatch_flavour!($f, String, $case),
            "rec" => dispatch_flavour!($f, Rec, $case),
            "vec" => dispatch_flavour!($f, Vec<Rec>, $case),
            "optu" => dispatch_flavour!($f, Option<u64>, $case),
            "tup" => dispatch_flavour!($f, (i32, String, Vec<Option<bool>>), $case),
            s => Err(format!("unknown ptype {}", s)),
        }
    };
}

pub fn main(path: &str) -> i32 {
    let text = match std::fs::read_to_string(path) {
        Ok(t) => t,
        Err(e) => {
            eprintln!("cannot read {}: {}", path, e);
            return 2;
        }
    };
    let mut rc = 0;
    for line in text.lines() {
        if line.trim().is_empty() {
            continue;
        }
        let case: Value = match serde_json::from_str(line) {
            Ok(v) => v,
            Err(e) => {
                eprintln!("bad case line: {}", e);
                return 2;
            }
        };
        let res = if case["kind"].as_str() == Some("de") {
            dispatch!(run_de, &case)
        } else {
            dispatch!(run_case, &case)
        };
        match res {
            Ok(v) => println!("{}", v),
            Err(e) => {
                println!("{}", json!({"id": case["id"], "error": e}));
                rc = 3;
            }
        }
    }
    rc
}
