//! A token-recording `serde::Serializer`: writes the sequence of calls of serde's data model as
//! text.  Unlike JSON it keeps `Some`/`None`, newtype and struct names, so `Option<Option<_>>`,
//! a lost `Some` marker or a wrapped newtype are visible.
use serde::ser::{self, Serialize};
use std::fmt::{self, Display, Write};

#[derive(Debug)]
pub struct TokErr(pub String);
impl Display for TokErr {
    fn fmt(&self, f: &mut fmt::Formatter) -> fmt::Result {
        write!(f, "{}", self.0)
    }
}
impl std::error::Error for TokErr {}
impl ser::Error for TokErr {
    fn custom<T: Display>(msg: T) -> Self {
        TokErr(msg.to_string())
    }
}

pub struct Rec<'a> {
    pub out: &'a mut String,
    end: &'static str,
}

pub fn tokens<T: Serialize + ?Sized>(v: &T) -> Result<String, TokErr> {
    let mut s = String::new();
    v.serialize(Rec { out: &mut s, end: "" })?;
    Ok(s.trim_end().to_string())
}

macro_rules! prim {
    ($name:ident, $ty:ty, $tag:expr) => {
        fn $name(self, v: $ty) -> Result<(), TokErr> {
            write!(self.out, "{}({:?}) ", $tag, v).unwrap();
            Ok(())
        }
    };
}

impl<'a> ser::Serializer for Rec<'a> {
    type Ok = ();
    type Error = TokErr;
    type SerializeSeq = Rec<'a>;
    type SerializeTuple = Rec<'a>;
    type SerializeTupleStruct = Rec<'a>;
    type SerializeTupleVariant = Rec<'a>;
    type SerializeMap = Rec<'a>;
    type SerializeStruct = Rec<'a>;
    type SerializeStructVariant = Rec<'a>;

    prim!(serialize_bool, bool, "Bool");
    prim!(serialize_i8, i8, "I8");
    prim!(serialize_i16, i16, "I16");
    prim!(serialize_i32, i32, "I32");
    prim!(serialize_i64, i64, "I64");
    prim!(serialize_u8, u8, "U8");
    prim!(serialize_u16, u16, "U16");
    prim!(serialize_u32, u32, "U32");
    prim!(serialize_u64, u64, "U64");
    prim!(serialize_f32, f32, "F32");
    prim!(serialize_f64, f64, "F64");
    prim!(serialize_char, char, "Char");
    prim!(serialize_str, &str, "Str");
    prim!(serialize_bytes, &[u8], "Bytes");

    fn serialize_none(self) -> Result<(), TokErr> {
        self.out.push_str("None ");
        Ok(())
    }
    fn serialize_some<T: ?Sized + Serialize>(self, value: &T) -> Result<(), TokErr> {
        self.out.push_str("Some ");
        value.serialize(Rec { out: self.out, end: "" })
    }
    fn serialize_unit(self) -> Result<(), TokErr> {
        self.out.push_str("Unit ");
        Ok(())
    }
    fn serialize_unit_struct(self, name: &'static str) -> Result<(), TokErr> {
        write!(self.out, "UnitStruct({}) ", name).unwrap();
        Ok(())
    }
    fn serialize_unit_variant(self, name: &'static str, idx: u32, variant: &'static str) -> Result<(), TokErr> {
        write!(self.out, "UnitVariant({},{},{}) ", name, idx, variant).unwrap();
        Ok(())
    }
    fn serialize_newtype_struct<T: ?Sized + Serialize>(self, name: &'static str, value: &T) -> Result<(), TokErr> {
        write!(self.out, "NewtypeStruct({}) ", name).unwrap();
        value.serialize(Rec { out: self.out, end: "" })
    }
    fn serialize_newtype_variant<T: ?Sized + Serialize>(
        self,
        name: &'static str,
        idx: u32,
        variant: &'static str,
        value: &T,
    ) -> Result<(), TokErr> {
        write!(self.out, "NewtypeVariant({},{},{}) ", name, idx, variant).unwrap();
        value.serialize(Rec { out: self.out, end: "" })
    }
    fn serialize_seq(self, len: Option<usize>) -> Result<Rec<'a>, TokErr> {
        write!(self.out, "Seq({:?}) ", len).unwrap();
        Ok(Rec { out: self.out, end: "SeqEnd " })
    }
    fn serialize_tuple(self, len: usize) -> Result<Rec<'a>, TokErr> {
        write!(self.out, "Tuple({}) ", len).unwrap();
        Ok(Rec { out: self.out, end: "TupleEnd " })
    }
    fn serialize_tuple_struct(self, name: &'static str, len: usize) -> Result<Rec<'a>, TokErr> {
        write!(self.out, "TupleStruct({},{}) ", name, len).unwrap();
        Ok(Rec { out: self.out, end: "TupleStructEnd " })
    }
    fn serialize_tuple_variant(self, name: &'static str, idx: u32, variant: &'static str, len: usize) -> Result<Rec<'a>, TokErr> {
        write!(self.out, "TupleVariant({},{},{},{}) ", name, idx, variant, len).unwrap();
        Ok(Rec { out: self.out, end: "TupleVariantEnd " })
    }
    fn serialize_map(self, len: Option<usize>) -> Result<Rec<'a>, TokErr> {
        write!(self.out, "Map({:?}) ", len).unwrap();
        Ok(Rec { out: self.out, end: "MapEnd " })
    }
    fn serialize_struct(self, name: &'static str, len: usize) -> Result<Rec<'a>, TokErr> {
        write!(self.out, "Struct({},{}) ", name, len).unwrap();
        Ok(Rec { out: self.out, end: "StructEnd " })
    }
    fn serialize_struct_variant(self, name: &'static str, idx: u32, variant: &'static str, len: usize) -> Result<Rec<'a>, TokErr> {
        write!(self.out, "StructVariant({},{},{},{}) ", name, idx, variant, len).unwrap();
        Ok(Rec { out: self.out, end: "StructVariantEnd " })
    }
    fn is_human_readable(&self) -> bool {
        false
    }
}

macro_rules! compound {
    ($tr:path, $method:ident) => {
        impl<'a> $tr for Rec<'a> {
            type Ok = ();
            type Error = TokErr;
            fn $method<T: ?Sized + Serialize>(&mut self, value: &T) -> Result<(), TokErr> {
                value.serialize(Rec { out: self.out, end: "" })
            }
            fn end(self) -> Result<(), TokErr> {
                self.out.push_str(self.end);
                Ok(())
            }
        }
    };
}
compound!(ser::SerializeSeq, serialize_element);
compound!(ser::SerializeTuple, serialize_element);
compound!(ser::SerializeTupleStruct, serialize_field);
compound!(ser::SerializeTupleVariant, serialize_field);

impl<'a> ser::SerializeMap for Rec<'a> {
    type Ok = ();
    type Error = TokErr;
    fn serialize_key<T: ?Sized + Serialize>(&mut self, key: &T) -> Result<(), TokErr> {
        self.out.push_str("K ");
        key.serialize(Rec { out: self.out, end: "" })
    }
    fn serialize_value<T: ?Sized + Serialize>(&mut self, value: &T) -> Result<(), TokErr> {
        self.out.push_str("V ");
        value.serialize(Rec { out: self.out, end: "" })
    }
    fn end(self) -> Result<(), TokErr> {
        self.out.push_str(self.end);
        Ok(())
    }
}
impl<'a> ser::SerializeStruct for Rec<'a> {
    type Ok = ();
    type Error = TokErr;
    fn serialize_field<T: ?Sized + Serialize>(&mut self, key: &'static str, value: &T) -> Result<(), TokErr> {
        write!(self.out, "Field({}) ", key).unwrap();
        value.serialize(Rec { out: self.out, end: "" })
    }
    fn end(self) -> Result<(), TokErr> {
        self.out.push_str(self.end);
        Ok(())
    }
}
impl<'a> ser::SerializeStructVariant for Rec<'a> {
    type Ok = ();
    type Error = TokErr;
    fn serialize_field<T: ?Sized + Serialize>(&mut self, key: &'static str, value: &T) -> Result<(), TokErr> {
        write!(self.out, "Field({}) ", key).unwrap();
        value.serialize(Rec { out: self.out, end: "" })
    }
    fn end(self) -> Result<(), TokErr> {
        self.out.push_str(self.end);
        Ok(())
    }
}
