//! D3: debts are keyed by address only, so the reference a reader gives back in the
//! unconfirmed window of `HybridProtection::attempt` may belong to an object of ANOTHER TYPE.
//! See README.md.

use std::alloc::{GlobalAlloc, Layout, System};
use std::cell::Cell;
use std::sync::atomic::{AtomicBool, AtomicUsize, Ordering::SeqCst};
use std::sync::{Arc, Condvar, Mutex};
use std::thread;

use arc_swap::verif::{install, Access, Decision, Hooks, Op};
use arc_swap::ArcSwap;

// ---------------------------------------------------------------------------------------------
// Allocator: the system one. It only *observes* (which address gets freed with which layout) and,
// with D3_RECYCLE=1, keeps a one-element free list for 24-byte blocks so that the address reuse
// does not depend on the behaviour of the system malloc (needed under Miri).
// ---------------------------------------------------------------------------------------------

struct Alloc;

static RECYCLE: AtomicBool = AtomicBool::new(false);
static SPARE24: AtomicUsize = AtomicUsize::new(0);
/// Address whose deallocation we want to know about (0 = none).
static WATCH: AtomicUsize = AtomicUsize::new(0);
static WATCH_FREED: AtomicUsize = AtomicUsize::new(0);

unsafe impl GlobalAlloc for Alloc {
    unsafe fn alloc(&self, l: Layout) -> *mut u8 {
        if l.size() == 24 && l.align() == 8 && RECYCLE.load(SeqCst) {
            let p = SPARE24.swap(0, SeqCst);
            if p != 0 {
                return p as *mut u8;
            }
        }
        System.alloc(l)
    }
    unsafe fn dealloc(&self, p: *mut u8, l: Layout) {
        if p as usize == WATCH.load(SeqCst) {
            WATCH_FREED.fetch_add(1, SeqCst);
        }
        if l.size() == 24 && l.align() == 8 && RECYCLE.load(SeqCst) {
            let old = SPARE24.swap(p as usize, SeqCst);
            if old != 0 {
                System.dealloc(old as *mut u8, l);
            }
            return;
        }
        System.dealloc(p, l)
    }
}

#[global_allocator]
static ALLOC: Alloc = Alloc;

// ---------------------------------------------------------------------------------------------
// The two pointee types. Same size (8) and alignment (8), so `ArcInner<T>` and `ArcInner<U>` have
// the same layout (24 bytes, align 8) and the allocator is free to hand the block of one to the
// other.
// ---------------------------------------------------------------------------------------------

/// Log of destructor runs: (kind, address of self, payload as integer). No allocation in Drop.
const LOG: usize = 16;
static LOG_LEN: AtomicUsize = AtomicUsize::new(0);
static LOG_KIND: [AtomicUsize; LOG] = [const { AtomicUsize::new(0) }; LOG];
static LOG_ADDR: [AtomicUsize; LOG] = [const { AtomicUsize::new(0) }; LOG];
static LOG_THREAD: [AtomicUsize; LOG] = [const { AtomicUsize::new(0) }; LOG];

fn log_drop(kind: usize, addr: usize) {
    let i = LOG_LEN.fetch_add(1, SeqCst);
    if i < LOG {
        LOG_KIND[i].store(kind, SeqCst);
        LOG_ADDR[i].store(addr, SeqCst);
        LOG_THREAD[i].store(ROLE.with(|r| r.get()), SeqCst);
    }
}

/// The pointee type of container A. Owns a heap block: its drop glue frees `self.0`.
struct T(#[allow(dead_code)] Box<u64>);
impl Drop for T {
    fn drop(&mut self) {
        log_drop(b'T' as usize, self as *const T as usize);
    }
}

/// The pointee type of container B. A plain integer, nothing to free.
struct U(#[allow(dead_code)] u64);
impl Drop for U {
    fn drop(&mut self) {
        log_drop(b'U' as usize, self as *const U as usize);
    }
}

/// What goes into container B: U in the real run, T in the control run.
trait Second: Send + Sync + 'static {
    const KIND: u8;
    /// Makes a value. `victim` is the address of a live, leaked `Box<u64>`. `fresh` is allocated
    /// by the caller in advance, so that making the value does not touch the allocator (the next
    /// allocation after the call is the `ArcInner` block).
    fn make(victim: *mut u64, fresh: Box<u64>) -> Self;
}
impl Second for U {
    const KIND: u8 = b'U';
    fn make(victim: *mut u64, fresh: Box<u64>) -> Self {
        Box::leak(fresh); // not needed, and must not be freed here (it would disturb the free list)
        // Just a number for U. It happens to be the address of somebody else's live heap block.
        U(victim as usize as u64)
    }
}
impl Second for T {
    const KIND: u8 = b'T';
    fn make(_victim: *mut u64, fresh: Box<u64>) -> Self {
        T(fresh)
    }
}

// ---------------------------------------------------------------------------------------------
// Scheduling through the hooks of the verification shim.
// ---------------------------------------------------------------------------------------------

const MAIN: usize = 0;
const READER: usize = 1;
thread_local! { static ROLE: Cell<usize> = const { Cell::new(MAIN) }; }

/// 0 start; 1 reader stopped at P1 (after step 1, before publishing the debt); 2 reader released
/// from P1; 3 reader stopped at P2 (debt published, before the confirming load); 4 released.
static STAGE: Mutex<u32> = Mutex::new(0);
static CV: Condvar = Condvar::new();

fn set_stage(v: u32) {
    *STAGE.lock().unwrap() = v;
    CV.notify_all();
}
fn wait_stage(v: u32) {
    let mut g = STAGE.lock().unwrap();
    while *g < v {
        g = CV.wait(g).unwrap();
    }
}

// What the reader did (recorded by the hooks).
static R_FIRST_LOAD: AtomicUsize = AtomicUsize::new(0);
static R_PUBLISHED: AtomicUsize = AtomicUsize::new(0);
static R_SLOT: AtomicUsize = AtomicUsize::new(0);
static R_CONFIRM: AtomicUsize = AtomicUsize::new(0);
static R_PAY_FAILED: AtomicUsize = AtomicUsize::new(0);
static R_PAY_FOUND: AtomicUsize = AtomicUsize::new(0);
static A_STORAGE: AtomicUsize = AtomicUsize::new(0);

fn is_reader() -> bool {
    ROLE.with(|r| r.get()) == READER
}

fn pre(a: &Access) -> Decision {
    // P1: the reader is about to publish the pointer in a fast slot (`slot.0.swap(ptr, SeqCst)`
    // in src/debt/fast.rs). Only the first time.
    if is_reader() && a.op == Op::Swap && a.site.file().ends_with("fast.rs") {
        let first = *STAGE.lock().unwrap() == 0;
        if first {
            set_stage(1);
            wait_stage(2);
        }
    }
    Decision::Proceed
}

fn post(a: &Access, old: usize, ok: bool) {
    if !is_reader() {
        return;
    }
    let file = a.site.file();
    if a.addr == A_STORAGE.load(SeqCst) && a.op == Op::Load && file.ends_with("hybrid.rs") {
        if R_FIRST_LOAD.load(SeqCst) == 0 {
            R_FIRST_LOAD.store(old, SeqCst); // step 1, Relaxed
        } else if R_CONFIRM.load(SeqCst) == 0 {
            R_CONFIRM.store(old, SeqCst); // step 3, SeqCst
        }
    }
    if a.op == Op::Swap && file.ends_with("fast.rs") && *STAGE.lock().unwrap() == 2 {
        // P2: the debt is published, the confirming load did not happen yet.
        R_PUBLISHED.store(a.a, SeqCst);
        R_SLOT.store(a.addr, SeqCst);
        set_stage(3);
        wait_stage(4);
    }
    if a.op == Op::Cas && a.addr == R_SLOT.load(SeqCst) && !ok && R_PAY_FAILED.load(SeqCst) == 0 {
        // step 4: `debt.pay(ptr)` failed, the slot no longer holds the pointer.
        R_PAY_FAILED.store(1, SeqCst);
        R_PAY_FOUND.store(old, SeqCst);
    }
}

static HOOKS: Hooks = Hooks { pre, post };

// ---------------------------------------------------------------------------------------------

fn strong_at<X>(p: *const X) -> usize {
    // Reads the strong count of the ArcInner the data pointer belongs to (data is at offset 16 for
    // 8-aligned payloads). Only used on blocks that are alive.
    unsafe { (*((p as usize - 16) as *const AtomicUsize)).load(SeqCst) }
}

fn scenario<S: Second>() -> i32 {
    install(&HOOKS);

    // Containers. A holds the value at address X.
    let a: &'static ArcSwap<T> = Box::leak(Box::new(ArcSwap::from_pointee(T(Box::new(1)))));
    let b: &'static ArcSwap<S> = Box::leak(Box::new(ArcSwap::from_pointee(S::make(
        Box::into_raw(Box::new(0)),
        Box::new(100),
    ))));
    A_STORAGE.store(a.verif_storage_addr(), SeqCst);
    let x = Arc::as_ptr(&a.load_full()) as usize;
    println!("A = ArcSwap<T>, B = ArcSwap<{}>", S::KIND as char);
    println!("[main ] A holds a T at X = {:#x}", x);

    // Somebody else's heap block. Owned by the program through this raw pointer until the end.
    let victim: *mut u64 = Box::into_raw(Box::new(0xfeed_f00d_u64));
    println!("[main ] victim heap block (a live Box<u64>, never freed by this program) at {:p}", victim);

    let fresh = Box::new(3u64);

    // Reader: one `load` of A.
    let reader = thread::spawn(move || {
        ROLE.with(|r| r.set(READER));
        let g = a.load();
        let got = &**g as *const T as usize;
        drop(g);
        got
    });

    // Reader is between step 1 (read X from A) and step 2 (publish the debt).
    wait_stage(1);
    println!("[reader] step 1: storage.load(Relaxed) of A = {:#x}; paused before publishing the debt", R_FIRST_LOAD.load(SeqCst));

    // W_A: replaces the value of A. Nobody owes X; the T at X is destroyed and its block freed.
    let before = LOG_LEN.load(SeqCst);
    let old = a.swap(Arc::new(T(Box::new(2))));
    assert_eq!(Arc::as_ptr(&old) as usize, x);
    assert_eq!(Arc::strong_count(&old), 1);
    drop(old);
    assert_eq!(LOG_LEN.load(SeqCst), before + 1);
    println!("[main ] W_A: A.swap(new T); old value had strong count 1; dropped: T::drop ran at {:#x}, block freed", x);

    // The same thread allocates the value for B right away: the allocator hands out X again.
    let y_arc: Arc<S> = Arc::new(S::make(victim, fresh));
    let y = Arc::as_ptr(&y_arc) as usize;
    println!("[main ] Arc::new(<{}>) for B is at Y = {:#x}  ({})", S::KIND as char, y,
        if x == y { "address REUSED" } else { "address NOT reused" });
    if x != y {
        println!("D3-INCONCLUSIVE: the allocator did not reuse the address (try D3_RECYCLE=1)");
        std::process::exit(2);
    }
    b.store(y_arc);
    let drops_before_window = LOG_LEN.load(SeqCst);

    // Reader publishes X (step 2) and stops before the confirming load (step 3).
    set_stage(2);
    wait_stage(3);
    println!("[reader] step 2: published {:#x} in its fast slot {:#x}; paused before the confirming load",
        R_PUBLISHED.load(SeqCst), R_SLOT.load(SeqCst));

    // W_B: replaces the value of B. It removed address X (now a <S>), finds the reader's slot
    // holding X and pays it: +1 on the <S> object.
    let old = b.swap(Arc::new(S::make(Box::into_raw(Box::new(0)), Box::new(200))));
    assert_eq!(Arc::as_ptr(&old) as usize, x);
    let cnt = Arc::strong_count(&old);
    println!("[main ] W_B: B.swap(new {k}); the removed {k} at {:#x} has strong count {} (W_B's own + the paid debt of the reader)",
        x, cnt, k = S::KIND as char);
    drop(old);
    let left = strong_at(x as *const u64);
    println!("[main ] W_B dropped its reference; strong count of the {} at {:#x} is now {} (owned by the reader's paid debt); destructors run in between: {}",
        S::KIND as char, x, left, LOG_LEN.load(SeqCst) - drops_before_window);

    // Reader goes on: confirmation fails, pay fails, `T::dec(X)`.
    WATCH.store(victim as usize, SeqCst);
    set_stage(4);
    let got = reader.join().unwrap();
    println!("[reader] step 3: storage.load(SeqCst) of A = {:#x} != {:#x}", R_CONFIRM.load(SeqCst), x);
    println!("[reader] step 4: debt.pay({:#x}) failed = {} (slot held {:#x}) -> `unsafe {{ T::dec(ptr) }}` with T = Arc<T>",
        x, R_PAY_FAILED.load(SeqCst) == 1, R_PAY_FOUND.load(SeqCst));
    println!("[reader] load() then returned {:#x} through the slow path", got);

    // What destructors ran on the object at X after it became the second object?
    let n = LOG_LEN.load(SeqCst).min(LOG);
    let mut t_on_x = 0;
    let mut u_on_x = 0;
    for i in drops_before_window..n {
        let kind = LOG_KIND[i].load(SeqCst) as u8;
        let addr = LOG_ADDR[i].load(SeqCst);
        let who = if LOG_THREAD[i].load(SeqCst) == READER { "reader" } else { "main" };
        println!("[drops ] {}::drop(&mut *{:#x}) on thread {}", kind as char, addr, who);
        if addr == x {
            match kind {
                b'T' => t_on_x += 1,
                _ => u_on_x += 1,
            }
        }
    }
    let victim_freed = WATCH_FREED.load(SeqCst);
    println!("[check ] second object at {:#x} was created as {}: T::drop ran on it {}x, U::drop ran on it {}x; victim block freed {}x",
        x, S::KIND as char, t_on_x, u_on_x, victim_freed);

    if S::KIND == b'U' {
        if t_on_x > 0 || victim_freed > 0 {
            println!(
                "D3-REPRODUCED: Arc<T>::drop released an Arc<U> allocation: T's destructor ran on a U \
                 (U::drop did not), and T's drop glue freed the Box<u64> at the address stored in the U's integer \
                 ({:p}, a block the program still owns)", victim);
            return 1;
        }
        if u_on_x == 1 {
            println!("D3-NOT-OBSERVED: the U at X was destroyed as a U, exactly once");
            return 0;
        }
        println!("D3-NOT-OBSERVED: (but the U at X was destroyed {} times?)", u_on_x);
        0
    } else {
        // Control: both containers hold T. The same interleaving; everything must be exact.
        let ok = t_on_x == 1 && u_on_x == 0 && victim_freed == 0
            && R_PAY_FAILED.load(SeqCst) == 1
            && Arc::strong_count(&a.load_full()) == 2
            && Arc::strong_count(&b.load_full()) == 2;
        if ok {
            println!("D3-NOT-OBSERVED: control (B = ArcSwap<T>): same interleaving, same failed pay + T::dec, \
                      the object was a T: destroyed once, as a T; counts exact; victim untouched");
            // The victim is still ours.
            assert_eq!(unsafe { *victim }, 0xfeed_f00d);
            unsafe { drop(Box::from_raw(victim)) };
            0
        } else {
            println!("CONTROL-FAILED");
            3
        }
    }
}

fn main() {
    if std::env::var_os("D3_RECYCLE").is_some() {
        RECYCLE.store(true, SeqCst);
    }
    let control = std::env::args().any(|a| a == "control");
    let code = if control { scenario::<T>() } else { scenario::<U>() };
    std::process::exit(code);
}
