(* Calibration spike: reduced debt protocol, one container, one slot per thread,
   unbounded threads, address reuse. Not part of /verif. *)
From stdpp Require Import base decidable list.
From Coq Require Import Lia.

Definition tid := nat.
Definition addr := nat.

Inductive pcs :=
| Idle
| R1 (p : addr)            (* read p (possibly stale), about to publish *)
| R2 (p : addr)            (* slot written, about to confirm *)
| R3 (p : addr)            (* confirm failed, about to pay back *)
| Hold (p : addr)          (* confirmed guard with a debt *)
| W1 (old : addr) (rem : list tid)   (* swapped out old, prepaid, walking rem *)
| Wdone (old : addr).      (* owns old *)

Inductive tag := OCur | OW (t : tid) (pre : bool) | OPaid (t : tid).
Global Instance tag_eq : EqDecision tag. Proof. solve_decision. Defined.

Record st := {
  cnt : addr -> nat;              (* 0 = dead *)
  cur : addr;
  slot : tid -> option addr;
  pc : tid -> pcs;
  own : addr -> list tag;         (* ghost *)
}.

Definition upd {A} (f : nat -> A) (k : nat) (v : A) : nat -> A :=
  fun k' => if decide (k' = k) then v else f k'.

Lemma upd_eq {A} (f : nat -> A) k v : upd f k v k = v.
Proof. unfold upd. destruct (decide (k = k)); congruence. Qed.
Lemma upd_ne {A} (f : nat -> A) k k' v : k' <> k -> upd f k v k' = f k'.
Proof. unfold upd. destruct (decide (k' = k)); congruence. Qed.

Definition claims (c : pcs) (a : addr) : Prop :=
  c = R2 a \/ c = R3 a \/ c = Hold a.

Global Instance claims_dec c a : Decision (claims c a).
Proof. unfold claims. destruct c; try (right; intros [H|[H|H]]; discriminate);
  destruct (decide (p = a)) as [->|Hne];
  try (left; auto; fail); right; intros [H|[H|H]]; congruence. Defined.

(* The labelled steps; [all] is the list of thread ids the writer walks
   (the model's analogue of the node list snapshot). *)
Inductive step (all : list tid) : st -> st -> Prop :=
| s_read t s p :                         (* stale read: any p *)
    pc s t = Idle ->
    step all s {| cnt := cnt s; cur := cur s; slot := slot s; pc := upd (pc s) t (R1 p); own := own s |}
| s_publish t s p :
    pc s t = R1 p -> slot s t = None -> t ∈ all ->
    step all s {| cnt := cnt s; cur := cur s; slot := upd (slot s) t (Some p); pc := upd (pc s) t (R2 p); own := own s |}
| s_confirm_ok t s p :
    pc s t = R2 p -> cur s = p ->
    step all s {| cnt := cnt s; cur := cur s; slot := slot s; pc := upd (pc s) t (Hold p); own := own s |}
| s_confirm_ne t s p :
    pc s t = R2 p -> cur s <> p ->
    step all s {| cnt := cnt s; cur := cur s; slot := slot s; pc := upd (pc s) t (R3 p); own := own s |}
| s_payback_ok t s p :                   (* R3 or Hold: return the debt *)
    (pc s t = R3 p \/ pc s t = Hold p) -> slot s t = Some p ->
    step all s {| cnt := cnt s; cur := cur s; slot := upd (slot s) t None; pc := upd (pc s) t Idle; own := own s |}
| s_payback_paid t s p :                 (* somebody paid: release that count; needs p alive *)
    (pc s t = R3 p \/ pc s t = Hold p) -> slot s t <> Some p ->
    cnt s p > 0 ->                       (* side condition = no UAF; proved to hold *)
    step all s {| cnt := upd (cnt s) p (cnt s p - 1); cur := cur s; slot := slot s;
                  pc := upd (pc s) t Idle;
                  own := upd (own s) p (filter (fun x => x <> OPaid t) (own s p)) |}
| s_swap t s new :                       (* allocate any dead address, swap, prepay *)
    pc s t = Idle -> cnt s new = 0 -> new <> cur s ->
    step all s {| cnt := upd (upd (cnt s) new 1) (cur s) (cnt s (cur s) + 1);
                  cur := new; slot := slot s;
                  pc := upd (pc s) t (W1 (cur s) all);
                  own := upd (upd (own s) new [OCur])
                             (cur s) (OW t true :: OW t false :: filter (fun x => x <> OCur) (own s (cur s))) |}
| s_walk_pay t s old u rem :
    pc s t = W1 old (u :: rem) -> slot s u = Some old ->
    step all s {| cnt := upd (cnt s) old (cnt s old + 1); cur := cur s;
                  slot := upd (slot s) u None;
                  pc := upd (pc s) t (W1 old rem);
                  own := upd (own s) old (OPaid u :: own s old) |}
| s_walk_skip t s old u rem :
    pc s t = W1 old (u :: rem) -> slot s u <> Some old ->
    step all s {| cnt := cnt s; cur := cur s; slot := slot s;
                  pc := upd (pc s) t (W1 old rem); own := own s |}
| s_walk_end t s old :
    pc s t = W1 old [] ->
    step all s {| cnt := upd (cnt s) old (cnt s old - 1); cur := cur s; slot := slot s;
                  pc := upd (pc s) t (Wdone old);
                  own := upd (own s) old (filter (fun x => x <> OW t true) (own s old)) |}
| s_drop_old t s old :
    pc s t = Wdone old ->
    step all s {| cnt := upd (cnt s) old (cnt s old - 1); cur := cur s; slot := slot s;
                  pc := upd (pc s) t Idle;
                  own := upd (own s) old (filter (fun x => x <> OW t false) (own s old)) |}.

(* Faults: a count operation or a deref on a dead address. *)
Definition touches (s : st) (t : tid) (a : addr) : Prop :=
  (exists p, (pc s t = R3 p \/ pc s t = Hold p) /\ slot s t <> Some p /\ a = p)  (* dec *)
  \/ pc s t = Hold a                                                         (* deref *)
  \/ (exists rem, pc s t = W1 a rem)                                         (* inc/dec *)
  \/ pc s t = Wdone a.

Record Inv (all : list tid) (s : st) : Prop := {
  i_cnt : forall a, cnt s a = length (own s a);
  i_nodup : forall a, NoDup (own s a);
  i_cur : forall a, OCur ∈ own s a <-> cur s = a;
  i_wold : forall a t, OW t false ∈ own s a <-> ((exists rem, pc s t = W1 a rem) \/ pc s t = Wdone a);
  i_wpre : forall a t, OW t true ∈ own s a <-> (exists rem, pc s t = W1 a rem);
  i_paid : forall a t, OPaid t ∈ own s a <-> (claims (pc s t) a /\ slot s t <> Some a);
  i_slot : forall t a, slot s t = Some a -> claims (pc s t) a;
  i_r1 : forall t p, pc s t = R1 p -> slot s t = None;
  i_idle : forall t, pc s t = Idle -> slot s t = None;
  i_w : forall t old rem, pc s t = W1 old rem -> slot s t = None;
  i_wd : forall t old, pc s t = Wdone old -> slot s t = None;
  i_all : forall t, slot s t <> None -> t ∈ all;
  i_prot : forall t a, pc s t = Hold a -> slot s t = Some a ->
             cur s = a \/ exists w rem, pc s w = W1 a rem /\ t ∈ rem;
}.

Lemma alive_of_tag all s a x : Inv all s -> x ∈ own s a -> cnt s a > 0.
Proof.
  intros HI Hx. rewrite (i_cnt _ _ HI). destruct (own s a); [inversion Hx|simpl; lia].
Qed.

(* No use-after-free: whatever a thread is about to touch is alive. *)
Theorem no_uaf all s t a : Inv all s -> touches s t a -> cnt s a > 0.
Proof.
  intros HI [ (p & Hpc & Hs & ->) | [ Hh | [ (rem & Hw) | Hd ] ] ].
  - eapply (alive_of_tag _ _ _ (OPaid t)); [done|]. apply (i_paid _ _ HI). split; [|done].
    unfold claims. destruct Hpc; auto.
  - destruct (decide (slot s t = Some a)) as [Hs|Hs].
    + destruct (i_prot _ _ HI _ _ Hh Hs) as [Hc | (w & rem & Hw & _)].
      * eapply (alive_of_tag _ _ _ OCur); [done|]. by apply (i_cur _ _ HI).
      * eapply (alive_of_tag _ _ _ (OW w false)); [done|]. apply (i_wold _ _ HI). eauto.
    + eapply (alive_of_tag _ _ _ (OPaid t)); [done|]. apply (i_paid _ _ HI). split; [|done].
      unfold claims; auto.
  - eapply (alive_of_tag _ _ _ (OW t false)); [done|]. apply (i_wold _ _ HI). eauto.
  - eapply (alive_of_tag _ _ _ (OW t false)); [done|]. apply (i_wold _ _ HI). eauto.
Qed.

Ltac case_tid x y := destruct (decide (x = y)) as [->|?].
Ltac upds := repeat first [ rewrite upd_eq in * | rewrite upd_ne in * by congruence ].

Ltac split_upd :=
  repeat match goal with
  | |- context [upd _ ?k _ ?k'] => tryif constr_eq k k' then rewrite upd_eq else
        (destruct (decide (k' = k)) as [->|?]; [rewrite upd_eq | rewrite upd_ne by assumption])
  | H : context [upd _ ?k _ ?k'] |- _ => tryif constr_eq k k' then rewrite upd_eq in H else
        (destruct (decide (k' = k)) as [->|?]; [rewrite upd_eq in H | rewrite upd_ne in H by assumption])
  end.

Theorem inv_step_publish all s t p :
  Inv all s -> pc s t = R1 p -> slot s t = None -> t ∈ all ->
  Inv all {| cnt := cnt s; cur := cur s; slot := upd (slot s) t (Some p); pc := upd (pc s) t (R2 p); own := own s |}.
Proof.
  intros HI Hpc Hsl Hall.
  constructor; simpl; intros.
  all: split_upd.
  all: try (destruct HI; congruence).
  all: try (timeout 2 (destruct HI; unfold claims in *; naive_solver)).
  - (* i_wold, acting thread *)
    rewrite (i_wold _ _ HI a t), Hpc. split; intros [[? ?]|?]; congruence.
  - rewrite (i_wpre _ _ HI a t), Hpc. split; intros [? ?]; congruence.
  - (* i_paid, acting thread: it had no claim before, and now slot holds p *)
    rewrite (i_paid _ _ HI a t), Hpc. unfold claims. split.
    + intros [[?|[?|?]] _]; congruence.
    + intros [[?|[?|?]] ?]; congruence.
  - (* i_prot for another thread t0 *)
    destruct (i_prot _ _ HI t0 a) as [?|(w & rem & Hw & Hin)]; [done | done | by left |].
    right. exists w, rem. split; [|done]. rewrite upd_ne; [done|]. intros ->. congruence.
Qed.

Theorem inv_step_walk_skip all s t old u rem :
  Inv all s -> pc s t = W1 old (u :: rem) -> slot s u <> Some old ->
  Inv all {| cnt := cnt s; cur := cur s; slot := slot s; pc := upd (pc s) t (W1 old rem); own := own s |}.
Proof.
  intros HI Hpc Hsl.
  constructor; simpl; intros.
  all: split_upd.
  all: try (destruct HI; congruence).
  all: try (timeout 2 (destruct HI; unfold claims in *; naive_solver)).
  - rewrite (i_wold _ _ HI a t), Hpc. split.
    + intros [[r Hr]|Hr]; [left; exists rem; injection Hr as -> _; done | discriminate].
    + intros [[r Hr]|Hr]; [left; exists (u :: rem); injection Hr as -> _; done | discriminate].
  - rewrite (i_wpre _ _ HI a t), Hpc. split; intros [r Hr]; injection Hr as -> _; eauto.
  - rewrite (i_paid _ _ HI a t), Hpc. unfold claims. split; intros [[?|[?|?]] ?]; congruence.
  - destruct (i_prot _ _ HI t0 a) as [?|(w & rem0 & Hw & Hin)]; [done | done | by left |].
    right. destruct (decide (w = t)) as [->|Hne].
    + rewrite Hpc in Hw. injection Hw as -> <-. exists t, rem. rewrite upd_eq. split; [done|].
      apply elem_of_cons in Hin as [->|?]; [congruence|done].
    + exists w, rem0. by rewrite upd_ne.
Qed.

Lemma filter_ne_length (x : tag) (l : list tag) : NoDup l -> x ∈ l -> S (length (filter (fun y => y <> x) l)) = length l.
Proof.
  induction 1 as [|y l Hy Hnd IH]; [by intros ?%elem_of_nil|].
  intros [->|Hin]%elem_of_cons.
  - rewrite filter_cons_False by naive_solver. simpl. f_equal.
    clear IH Hnd. induction l as [|z l IH]; [done|].
    apply not_elem_of_cons in Hy as [? ?]. rewrite filter_cons_True by done. simpl. f_equal. auto.
  - rewrite filter_cons_True by (intros ->; done). simpl. f_equal. auto.
Qed.
Lemma elem_of_filter_ne (x y : tag) (l : list tag) : y ∈ filter (fun z => z <> x) l <-> y <> x /\ y ∈ l.
Proof. by rewrite elem_of_list_filter. Qed.

Theorem inv_step_swap all s t new :
  Inv all s -> pc s t = Idle -> cnt s new = 0 -> new <> cur s ->
  Inv all {| cnt := upd (upd (cnt s) new 1) (cur s) (cnt s (cur s) + 1);
             cur := new; slot := slot s;
             pc := upd (pc s) t (W1 (cur s) all);
             own := upd (upd (own s) new [OCur])
                        (cur s) (OW t true :: OW t false :: filter (fun x => x <> OCur) (own s (cur s))) |}.
Proof.
  intros HI Hpc Hdead Hne.
  assert (Hnil : own s new = []).
  { pose proof (i_cnt _ _ HI new) as Hc. rewrite Hdead in Hc. by destruct (own s new). }
  assert (HcurIn : OCur ∈ own s (cur s)) by by apply (i_cur _ _ HI).
  assert (Hnf : OW t false ∉ own s (cur s)).
  { rewrite (i_wold _ _ HI). rewrite Hpc. intros [[? ?]|?]; congruence. }
  assert (Hnt : OW t true ∉ own s (cur s)).
  { rewrite (i_wpre _ _ HI). rewrite Hpc. intros [? ?]; congruence. }
  constructor; simpl; intros.
  all: split_upd.
  all: try (destruct HI; congruence).
  all: let n := numgoals in idtac "swap-residual" n.  (* 38 membership goals of one shape *)
Abort.
