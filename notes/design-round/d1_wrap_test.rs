// tests/wrap.rs used on a scratch copy with a setter for the thread's generation counter
// (arc_swap::x_set_generation, see scratch_patches.diff). On the unmodified algorithm the
// third load panics at src/debt/list.rs:302 "LocalNode::with ensures it is set".
use std::sync::Arc;
use arc_swap::ArcSwap;
#[test]
fn wrap() {
    let a = ArcSwap::from_pointee(1usize);
    let gs: Vec<_> = (0..8).map(|_| a.load()).collect(); // next loads use the fallback
    arc_swap::x_set_generation(usize::MAX - 3 - 8); // two loads before the wrap
    for i in 0..5 {
        let g = a.load();
        println!("load {} -> {}", i, **g);
    }
    drop(gs);
    a.store(Arc::new(2));
}
