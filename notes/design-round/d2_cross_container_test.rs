// tests/aba.rs used on a scratch copy with two pause points in HybridProtection::attempt
// (arc_swap::X_HOOK / x_point, see scratch_patches.diff). On the unmodified algorithm:
//   load() on S1 returned: "only-in-S2"
use std::sync::{Arc, mpsc, Mutex};
use std::thread;
use arc_swap::ArcSwap;

#[test]
fn cross_container() {
    let s1 = Arc::new(ArcSwap::from_pointee(String::from("only-in-S1-X")));
    let (to_main, from_r) = mpsc::channel::<&'static str>();
    let (to_r, from_main) = mpsc::channel::<()>();
    let from_main = Mutex::new(from_main);
    let to_main = Mutex::new(to_main);
    let rid = Arc::new(Mutex::new(None::<thread::ThreadId>));
    let rid2 = rid.clone();
    *arc_swap::X_HOOK.write().unwrap() = Some(Box::new(move |name| {
        if Some(thread::current().id()) == *rid2.lock().unwrap() {
            to_main.lock().unwrap().send(name).unwrap();
            from_main.lock().unwrap().recv().unwrap();
        }
    }));
    let s1r = s1.clone();
    let rid3 = rid.clone();
    let r = thread::spawn(move || {
        let _ = s1r.load(); // warm up the thread's node
        *rid3.lock().unwrap() = Some(thread::current().id());
        let g = s1r.load();
        *rid3.lock().unwrap() = None;
        format!("{}", **g)
    });
    assert_eq!(from_r.recv().unwrap(), "attempt:after_load");
    let x = s1.swap(Arc::new(String::from("only-in-S1-Y"))); // W1 removes X ...
    let addr_x = Arc::as_ptr(&x) as usize;
    drop(x); // ... and frees it
    let xp = Arc::new(String::from("only-in-S2")); // glibc hands the block out again
    let addr_xp = Arc::as_ptr(&xp) as usize;
    println!("addr X = {:x}, addr X' = {:x}", addr_x, addr_xp);
    let s2 = ArcSwap::new(xp);
    to_r.send(()).unwrap(); // reader publishes the stale address in its slot
    assert_eq!(from_r.recv().unwrap(), "attempt:after_new_fast");
    let old2 = s2.swap(Arc::new(String::from("only-in-S2-Z"))); // W2 pays that slot
    println!("count of X' after S2.swap = {}", Arc::strong_count(&old2));
    to_r.send(()).unwrap();
    let got = r.join().unwrap();
    println!("load() on S1 returned: {:?}", got);
    assert!(got.starts_with("only-in-S1"), "S1.load() returned a value never stored in S1: {}", got);
}
