use std::sync::atomic::{AtomicPtr, AtomicUsize, Ordering::*};
use std::sync::Arc;
use std::thread;
use arc_swap::ArcSwap;

static FLAG: AtomicUsize = AtomicUsize::new(0);
static DONE: AtomicUsize = AtomicUsize::new(0);
static HAND: AtomicPtr<Vec<u64>> = AtomicPtr::new(std::ptr::null_mut());

fn main() {
    let s = Arc::new(ArcSwap::from_pointee(vec![1u64, 2, 3]));
    let s_r = s.clone();
    let r = thread::spawn(move || {
        let g = s_r.load();
        let sum: u64 = g.iter().sum(); // plain reads of the pointee
        drop(g); // returns the debt with a Release CAS
        FLAG.store(1, Relaxed); // no happens-before to the writer
        while DONE.load(Relaxed) == 0 { std::hint::spin_loop(); }
        sum
    });
    let s_w = s.clone();
    let w = thread::spawn(move || {
        while FLAG.load(Relaxed) == 0 {
            std::hint::spin_loop();
        }
        let old = s_w.swap(Arc::new(vec![9]));
        HAND.store(Arc::into_raw(old) as *mut _, Release); // hand over to a third thread
    });
    let t = thread::spawn(move || {
        let p = loop {
            let p = HAND.load(Acquire);
            if !p.is_null() { break p; }
            std::hint::spin_loop();
        };
        let old = unsafe { Arc::from_raw(p as *const Vec<u64>) };
        drop(old);
        DONE.store(1, Relaxed);
    });
    println!("{}", r.join().unwrap());
    w.join().unwrap();
    t.join().unwrap();
}
