#![allow(deprecated)]
use std::sync::atomic::{AtomicUsize, Ordering::*};
use std::sync::Arc;
use std::thread;
use arc_swap::ArcSwapAny;
use arc_swap::strategy::test_strategies::FillFastSlots;

static FLAG: AtomicUsize = AtomicUsize::new(0);
static READY: AtomicUsize = AtomicUsize::new(0);

fn main() {
    let s: Arc<ArcSwapAny<Arc<u64>, FillFastSlots>> = Arc::new(ArcSwapAny::new(Arc::new(1u64)));
    let warm: Arc<ArcSwapAny<Arc<u64>, FillFastSlots>> = Arc::new(ArcSwapAny::new(Arc::new(0u64)));
    let (s_r, warm_r) = (s.clone(), warm.clone());
    let r = thread::spawn(move || {
        let _ = **warm_r.load(); // get a node for this thread
        READY.fetch_add(1, Relaxed);
        while FLAG.load(Relaxed) == 0 { std::hint::spin_loop(); }
        let g = s_r.load(); // fallback path; candidate read is load(Acquire)
        **g
    });
    let (s_w, warm_w) = (s.clone(), warm.clone());
    let w = thread::spawn(move || {
        let _ = **warm_w.load(); // get a node for this thread
        READY.fetch_add(1, Relaxed);
        while READY.load(Relaxed) < 2 { std::hint::spin_loop(); }
        let old = s_w.swap(Arc::new(2));
        drop(old); // value 1 destroyed
        FLAG.store(1, Relaxed);
    });
    println!("{}", r.join().unwrap());
    w.join().unwrap();
}
