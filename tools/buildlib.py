"""Builds: translators, Coq (full .vo builds of a target's cone), extraction + OCaml driver,
Rust harnesses against /repo's working tree with --cfg arc_swap_verif."""
import os, subprocess, re, glob, time, hashlib, fcntl

HERE = os.path.dirname(os.path.abspath(__file__))
ROOT = os.path.dirname(HERE)
COQ = os.path.join(ROOT, "coq")
WORK = os.path.join(ROOT, "work")
ENV = dict(os.environ, CARGO_NET_OFFLINE="true")


def sh(cmd, cwd=ROOT, timeout=3000, env=None):
    p = subprocess.run(cmd, cwd=cwd, shell=isinstance(cmd, str), stdout=subprocess.PIPE,
                       stderr=subprocess.STDOUT, timeout=timeout, env=env or ENV)
    return p.returncode, p.stdout.decode(errors="replace")


class Lock:
    """Checks of different properties may run concurrently: serialise the builds."""
    def __enter__(self):
        os.makedirs(WORK, exist_ok=True)
        self.f = open(os.path.join(WORK, ".build.lock"), "w")
        fcntl.flock(self.f, fcntl.LOCK_EX)
        return self
    def __exit__(self, *a):
        fcntl.flock(self.f, fcntl.LOCK_UN)
        self.f.close()


def run_translators():
    """Regenerates the model parts read off /repo. Returns list of problems (strings)."""
    problems = []
    os.makedirs(WORK, exist_ok=True)
    rc, out = sh(["python3", os.path.join(HERE, "gen_orderings.py"),
                  os.path.join(COQ, "ASModel/Orderings_gen.v"), os.path.join(WORK, "orderings.json")])
    if rc != 0:
        problems.append("translator gen_orderings.py refused: " + out.strip().replace("\n", " | ")[:600])
    gt = os.path.join(HERE, "gen_types.py")
    if os.path.exists(gt):
        rc, out = sh(["python3", gt, os.path.join(COQ, "Marker/Types_gen.v"), os.path.join(WORK, "types.json")])
        if rc != 0:
            problems.append("translator gen_types.py refused: " + out.strip().replace("\n", " | ")[:600])
    return problems


COQ_DIRS = ["ASModel", "Seq", "Marker", "Props"]


def coq_project():
    """_CoqProject lists every .v under the development's directories (sorted), so adding a
    file needs no edit of a shared list."""
    lines = ["-Q %s %s" % (d, d) for d in COQ_DIRS if os.path.isdir(os.path.join(COQ, d))]
    for d in COQ_DIRS:
        for f in sorted(glob.glob(os.path.join(COQ, d, "*.v"))):
            lines.append(os.path.relpath(f, COQ))
    # generated files may not exist yet on a fresh checkout
    for gen in ["ASModel/Orderings_gen.v", "Marker/Types_gen.v"]:
        if gen not in lines and os.path.isdir(os.path.join(COQ, os.path.dirname(gen))) and \
           os.path.exists(os.path.join(HERE, "gen_types.py" if "Types" in gen else "gen_orderings.py")):
            lines.append(gen)
    text = "\n".join(lines) + "\n"
    cp = os.path.join(COQ, "_CoqProject")
    if not os.path.exists(cp) or open(cp).read() != text:
        open(cp, "w").write(text)


def coq_makefile():
    coq_project()
    mk = os.path.join(COQ, "Makefile")
    cp = os.path.join(COQ, "_CoqProject")
    if not os.path.exists(mk) or os.path.getmtime(mk) < os.path.getmtime(cp):
        sh("coq_makefile -f _CoqProject -o Makefile", cwd=COQ)


def coq_build(targets):
    """make the given .vo targets (and whatever they depend on). Returns (ok, log)."""
    coq_makefile()
    os.makedirs(os.path.join(COQ, "extract"), exist_ok=True)     # git-ignored: absent on a fresh checkout
    rc, out = sh(["make", "-j16"] + targets, cwd=COQ, timeout=3000)
    open(os.path.join(WORK, "coq_build.log"), "a").write(out)
    return rc == 0, out


def ocaml_build():
    b = os.path.join(COQ, "build")
    os.makedirs(b, exist_ok=True)
    srcs = [os.path.join(COQ, "extract/model.ml"), os.path.join(COQ, "extract/model.mli"),
            os.path.join(COQ, "driver/model_run.ml")]
    exe = os.path.join(b, "model_run")
    if os.path.exists(exe) and all(os.path.getmtime(s) <= os.path.getmtime(exe) for s in srcs):
        return True, ""
    for s in srcs:
        subprocess.run(["cp", s, b])
    rc, out = sh("ocamlfind ocamlopt -O2 -w -a model.mli model.ml model_run.ml -o model_run", cwd=b, timeout=600)
    return rc == 0, out


def harness_build(package=None):
    cmd = ["cargo", "build", "--offline"]
    if package:
        cmd += ["-p", package]
    rc, out = sh(cmd, cwd=os.path.join(ROOT, "harness"), timeout=3000)
    open(os.path.join(WORK, "harness_build.log"), "w").write(out)
    return rc == 0, out


def cone_files(vfile):
    """The .v files (project-local) that vfile transitively depends on, including itself."""
    rc, out = sh("coqdep -f _CoqProject 2>/dev/null", cwd=COQ)
    deps = {}
    for line in out.splitlines():
        if ":" not in line:
            continue
        lhs, rhs = line.split(":", 1)
        tgt = [x for x in lhs.split() if x.endswith(".vo")]
        if not tgt:
            continue
        deps[tgt[0]] = [x for x in rhs.split() if x.endswith(".vo")]
    seen = set()
    def go(vo):
        if vo in seen:
            return
        seen.add(vo)
        for d in deps.get(vo, []):
            go(d)
    go(vfile[:-2] + ".vo")
    return sorted(x[:-3] + ".v" for x in seen if os.path.exists(os.path.join(COQ, x[:-3] + ".v")))


def count_obligations(vfiles):
    n = 0
    names = []
    for f in vfiles:
        src = open(os.path.join(COQ, f)).read()
        src = re.sub(r"\(\*.*?\*\)", "", src, flags=re.S)
        for m in re.finditer(r"^\s*(?:Local\s+|Global\s+|#\[[^\]]*\]\s*)?(Theorem|Lemma|Corollary|Example|Fact|Proposition)\s+([\w']+)", src, flags=re.M):
            n += 1
            names.append(f + ":" + m.group(2))
    return n, names


def forbidden_tokens(vfiles, pattern):
    hits = []
    for f in vfiles:
        src = open(os.path.join(COQ, f)).read()
        nocom = re.sub(r"\(\*.*?\*\)", lambda m: " " * len(m.group(0)), src, flags=re.S)
        for m in re.finditer(pattern, nocom):
            line = nocom.count("\n", 0, m.start()) + 1
            hits.append("%s:%d: %s" % (f, line, m.group(0)))
        # Variable / Hypothesis / Context outside a Section declare axioms
        depth = 0
        for i, l in enumerate(nocom.splitlines()):
            if re.match(r"\s*Section\s+\w+", l):
                depth += 1
            elif re.match(r"\s*End\s+\w+", l) and depth > 0:
                depth -= 1
            elif depth == 0 and re.match(r"\s*(Variable|Variables|Hypothesis|Hypotheses)\b", l):
                hits.append("%s:%d: %s outside a Section" % (f, i + 1, l.strip()[:40]))
    return hits


def print_assumptions(props_v):
    """Compiles the property file with coqc (its dependencies are built) and parses what
    its `Print Assumptions` commands print.  Returns (ok, n_commands, n_closed, axioms, raw)."""
    src = open(os.path.join(COQ, props_v)).read()
    n_cmds = len(re.findall(r"^\s*Print Assumptions\b", src, flags=re.M))
    args = []
    for l in open(os.path.join(COQ, "_CoqProject")).read().splitlines():
        w = l.split()
        if w and w[0] in ("-Q", "-R"):
            args += w
    rc, out = sh(["coqc", "-noglob"] + args + [props_v], cwd=COQ, timeout=1200)
    closed = out.count("Closed under the global context")
    axioms = []
    for m in re.finditer(r"Axioms:\n((?:.+\n?)+?)(?:\n|$)", out):
        for l in m.group(1).splitlines():
            mm = re.match(r"^([\w\.']+)\s*:", l)
            if mm:
                axioms.append(mm.group(1))
    return rc == 0, n_cmds, closed, axioms, out
