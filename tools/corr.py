#!/usr/bin/env python3
"""Trace correspondence: run generated programs on the real crate (harness `conc`) and on the
extracted Coq model (`model_run`) under the same schedule and compare the traces.

Library + CLI.  `run_batch(families, n, seed, workdir)` returns a dict with counts, the list
of divergences (each with the program, schedule and both traces written to files), path
statistics and samples.
"""
import os, sys, subprocess, json, time, hashlib
from concurrent.futures import ThreadPoolExecutor

HERE = os.path.dirname(os.path.abspath(__file__))
ROOT = os.path.dirname(HERE)
sys.path.insert(0, HERE)
import gen_programs
import trace as tracemod

CONC = os.path.join(ROOT, "harness/target/debug/conc")
MODEL = os.path.join(ROOT, "coq/build/model_run")


def lines_match(a, b):
    if a == b:
        return True
    ta, tb = a.split(), b.split()
    if len(ta) != len(tb):
        return False
    return all(x == y or x == "?" or y == "?" for x, y in zip(ta, tb))


def first_divergence(impl, model):
    n = max(len(impl), len(model))
    for i in range(n):
        a = impl[i] if i < len(impl) else "<end>"
        b = model[i] if i < len(model) else "<end>"
        if not lines_match(a, b):
            return i, a, b
    return None


def run_one(job):
    """job = (family, seed, policy, workdir).  Returns a result dict."""
    family, seed, policy, workdir = job
    tag = "%s-%d-%s" % (family, seed, policy)
    base = os.path.join(workdir, tag)
    prog = base + ".prog"
    text = gen_programs.gen_program(seed, family)
    with open(prog, "w") as f:
        f.write(text)
    return run_program(prog, seed, policy, base, family)


HANGS = [0]          # runs of the harness that had to be killed; beyond a few the batch stops running new ones
HANG_LIMIT = 12


def run_program(prog, seed, policy, base, family="corpus", replay=None):
    if HANGS[0] >= HANG_LIMIT:
        return {"family": family, "seed": seed, "policy": policy, "prog": prog, "impl_exit": -9, "base": base,
                "stderr": "skipped: the harness hung on %d earlier runs" % HANGS[0], "status": "harness-failed"}
    trace, sched, stats = base + ".impl", base + ".sched", base + ".stats"
    cmd = [CONC, prog, "--seed", str(seed), "--policy", policy, "--trace-out", trace,
           "--sched-out", sched, "--stats-out", stats]
    if replay:
        cmd += ["--replay", replay]
    try:
        p = subprocess.run(cmd, stdout=subprocess.PIPE, stderr=subprocess.PIPE, timeout=40)
        code = p.returncode
        err = p.stderr.decode(errors="replace")[-2000:]
    except subprocess.TimeoutExpired:
        code, err = -9, "timeout"
        HANGS[0] += 1
    res = {"family": family, "seed": seed, "policy": policy, "prog": prog, "impl_exit": code,
           "base": base, "stderr": err}
    if not os.path.exists(trace) or not os.path.exists(sched):
        res["status"] = "harness-failed"
        return res
    impl = open(trace).read().splitlines()
    nomodel = any(l.startswith("config") and "nomodel=1" in l for l in open(prog).read().splitlines())
    if nomodel:
        # scenarios with user code the model does not cover (panicking destructors): the real crate runs
        # under the scheduler and only the oracles judge the trace
        res["steps"] = len(open(sched).read().splitlines())
        res["stats"] = {}
        res["events"] = len(impl)
        res["digest"] = hashlib.sha1("\n".join(impl).encode()).hexdigest()[:16]
        res["flags"] = [l for l in impl if l.startswith(". FAULT") or l.startswith(". PANIC") or l.startswith(". HARNESS-ERROR") or l.startswith(". DEADLOCK") or l.startswith(". LIMIT")]
        try:
            findings, metrics = tracemod.analyse(tracemod.parse_program(open(prog).read()), impl)
        except Exception as ex:
            findings, metrics = [("HARNESS", "oracle crashed: %r" % (ex,))], {}
        res["findings"] = findings
        res["metrics"] = metrics
        res["nomodel"] = True
        res["status"] = "ok" if code in (0, 3, 5) else "harness-failed"
        return res
    m = subprocess.run([MODEL, prog, sched], stdout=subprocess.PIPE, stderr=subprocess.PIPE, timeout=120)
    model = m.stdout.decode().splitlines()
    # the model driver evaluates the accounting equation of coq/ASModel/AccDefs.v on every state
    # (MODEL_ACC_CHECK=1); a violated equation on a trace the code agrees with is a C02 finding
    acc_lines = [l for l in model if l.startswith(". ACC-VIOLATION")]
    prot_lines = [l for l in model if l.startswith(". PROT-VIOLATION")]
    scope_lines = [l for l in model if l.startswith(". SCOPE-OUT")]
    view_lines = [l for l in model if l.startswith(". VIEW-OUT")]
    model = [l for l in model if not l.startswith(". ACC-VIOLATION") and not l.startswith(". PROT-VIOLATION") and not l.startswith(". SCOPE-OUT")
             and not l.startswith(". VIEW-OUT")]
    open(base + ".model", "w").write(m.stdout.decode())
    if m.returncode != 0:
        res["status"] = "model-failed"
        res["stderr"] = m.stderr.decode(errors="replace")[-2000:]
        return res
    # annotation lines the harness adds and the model does not know
    impl_cmp = [l for l in impl if not l.startswith(". LIMIT") and not l.startswith(". DEADLOCK")
                and not l.startswith(". REPLAY-END") and not l.startswith(". SOLO-")]
    d = first_divergence(impl_cmp, model)
    res["steps"] = len(open(sched).read().splitlines())
    st = {}
    if os.path.exists(stats):
        for l in open(stats).read().splitlines():
            k, v = l.split()
            st[k] = int(v)
    res["stats"] = st
    res["events"] = len(impl_cmp)
    res["digest"] = hashlib.sha1("\n".join(impl_cmp).encode()).hexdigest()[:16]
    flags = [l for l in impl if l.startswith(". FAULT") or l.startswith(". PANIC") or l.startswith(". HARNESS-ERROR")
             or l.startswith(". DEADLOCK") or l.startswith(". LIMIT") or l.startswith(". REPLAY-DIVERGED")
             or l.startswith(". SOLO-LIMIT") or l.startswith(". SOLO-BLOCKED")]
    res["flags"] = flags
    try:
        findings, metrics = tracemod.analyse(tracemod.parse_program(open(prog).read()), impl)
    except Exception as ex:  # an oracle crash must not pass silently
        findings, metrics = [("HARNESS", "oracle crashed: %r" % (ex,))], {}
    for l in acc_lines:
        findings = list(findings) + [("C02", "accounting equation count+slots+owed = containers+envelopes+handles+frames violated: " + l[2:], None)]
    for l in prot_lines:
        findings = list(findings) + [("C01", "protection invariant of coq/ASModel/ProtDefs.v (a slot holding a value is unconfirmed, or the value is stored, or a writer still walks towards the slot) violated: " + l[2:], None)]
    for l in view_lines:
        # not a property violation: the run is outside the hypotheses of the stale-cache theorems (the harness offered a value
        # the model's views forbid) - a defect of the harness' view tracking
        findings = list(findings) + [("HARNESS", "stale value outside the model's views: " + l[2:], None)]
    res["findings"] = findings
    res["metrics"] = metrics
    # inside the scope of the end-to-end theorems (Main.RunOK)? static part: no set_generation, no cache commands
    try:
        ptxt = open(prog).read()
    except OSError:
        ptxt = ""
    res["in_scope"] = (not scope_lines) and ("setgen" not in ptxt) and ("cache" not in ptxt) and os.environ.get("MODEL_SCOPE_CHECK") == "1"
    if d is None:
        res["status"] = "ok"
        if not flags and not findings:
            for ext in (".impl", ".model", ".sched", ".stats", ".prog"):
                # keep disk usage low: remove artefacts of agreeing, unflagged runs
                if ext == ".prog" and family == "corpus":
                    continue
                try:
                    os.remove(base + ext)
                except OSError:
                    pass
    else:
        res["status"] = "diverged"
        res["divergence"] = {"index": d[0], "impl": d[1], "model": d[2]}
    return res


def run_batch(families, n, seed, workdir, policies=("sticky", "pct", "spurious"), jobs=16):
    os.makedirs(workdir, exist_ok=True)
    todo = []
    for fam in families:
        for i in range(n):
            s = seed * 1000003 + i
            todo.append((fam, s, policies[i % len(policies)], workdir))
    t0 = time.time()
    with ThreadPoolExecutor(max_workers=jobs) as ex:
        results = list(ex.map(run_one, todo))
    return results, time.time() - t0


def summarize(results):
    out = {"runs": len(results), "in_scope": sum(1 for r in results if r.get("in_scope")), "ok": 0, "diverged": [], "failed": [], "flags": [], "steps": 0,
           "events": 0, "stats": {}, "by_family": {}, "digests": set(), "findings": [], "max_load_steps": 0}
    for r in results:
        fam = out["by_family"].setdefault(r["family"], {"runs": 0, "ok": 0, "steps": 0})
        fam["runs"] += 1
        if r["status"] == "ok":
            out["ok"] += 1
            fam["ok"] += 1
        elif r["status"] == "diverged":
            out["diverged"].append(r)
        else:
            out["failed"].append(r)
        if r.get("flags"):
            out["flags"].append(r)
        for f in r.get("findings", []):
            out["findings"].append((f[0], f[1], r["base"], f[2] if len(f) > 2 else None))
        out["max_load_steps"] = max(out["max_load_steps"], r.get("metrics", {}).get("max_load_steps", 0))
        out["steps"] += r.get("steps", 0)
        fam["steps"] += r.get("steps", 0)
        out["events"] += r.get("events", 0)
        for k, v in r.get("stats", {}).items():
            if k in ("steps", "exit"):
                continue
            out["stats"][k] = out["stats"].get(k, 0) + v
        if "digest" in r:
            out["digests"].add(r["digest"])
    return out


if __name__ == "__main__":
    import argparse
    ap = argparse.ArgumentParser()
    ap.add_argument("--families", default=",".join(gen_programs.FAMILIES))
    ap.add_argument("-n", type=int, default=20)
    ap.add_argument("--seed", type=int, default=1)
    ap.add_argument("--work", default=os.path.join(ROOT, "work/corr"))
    a = ap.parse_args()
    results, dt = run_batch(a.families.split(","), a.n, a.seed, a.work)
    s = summarize(results)
    print("runs %d ok %d diverged %d failed %d flagged %d steps %d in %.1fs" %
          (s["runs"], s["ok"], len(s["diverged"]), len(s["failed"]), len(s["flags"]), s["steps"], dt))
    print("distinct traces", len(s["digests"]), "stats", s["stats"])
    for fam, v in s["by_family"].items():
        print("  ", fam, v)
    for r in s["diverged"][:5]:
        print("DIVERGED", r["base"], r["divergence"])
    for r in s["failed"][:5]:
        print("FAILED", r["status"], r["base"], r["impl_exit"], r["stderr"][-300:])
    for r in s["flags"][:5]:
        print("FLAG", r["base"], r["flags"])
    print("max_load_steps", s["max_load_steps"], "findings", len(s["findings"]))
    for f in s["findings"][:10]:
        print("FINDING", f)
