#!/usr/bin/env python3
"""Writes /verif/MANIFEST.json from the table below (kept next to the code so that claims and
checks move together)."""
import json, os
ROOT = os.path.dirname(os.path.dirname(os.path.abspath(__file__)))

TIE = ("The model is tied to /repo on every run: the orderings table is regenerated from the source by a translator, and the "
       "hand-written model is validated by trace correspondence (real crate built with --cfg arc_swap_verif under a controlled "
       "scheduler vs the extracted model replaying the same schedule; every atomic event, count operation, API result and the final "
       "state are compared), on preemption sweeps of scenario programs and on generated programs x schedules.")
NOTE = ("Theorems are about ASModel (coq/ASModel, sequentially consistent interleavings, one atomic access per step); they transfer to "
        "/repo as far as the correspondence reaches (counted in the evidence). Trusted: Coq kernel, tools/gen_orderings.py, extraction "
        "(ExtrOcamlBasic only) + OCaml driver, src/verif.rs shim + harness/conc, tools/corr.py. ")

CLAIMS = {
 "C04": dict(engine="ASModel",
   text="Coq theorems over ASModel, for every schedule and any number of threads: the storage of a container changes only through "
        "successful swap/compare_exchange events, and over a whole run these writes form one chain in which every write replaces exactly "
        "what its predecessor wrote (store_chain, by induction over schedules); the swap frame hands back exactly the replaced value. " + TIE,
   note=NOTE + "Run level (ASModel/LinSwap*.v, all schedules within Main.RunOK): C04_swap_linearizable / C04_store_linearizable - a completed swap/store did exactly one write to the "
        "container, it stored the given value, and the call hands back (store: releases in its last step) exactly the value that write replaced; compare_and_swap/rcu: C05/C06. "
        "'Handed back exactly once, owning a full reference': the removed value is carried with exactly one reference in the accounting table until it reaches the caller's "
        "handle (C04_accounting = the count equation in every state of every run within Main.RunOK; C04_returned_value_alive); the hb theorems C04_handover_* pin the orderings of the "
        "exchanges (a weakened swap/compare-exchange breaks them). Also proved for runs in which the non-SeqCst loads of the read side return stale values (Stale2.step_stale2, RunOKS2; theorems *_stale2 pinned in this property's Props file).",
   technique="Rocq/Coq proof (induction over schedules) + trace correspondence"),
 "C05": dict(engine="ASModel",
   text="Coq theorems over ASModel (all states, all scheduler choices incl. spurious failure): the exchange step of compare_and_swap "
        "writes iff the stored pointer equals current at that step and then stores exactly new; it is reached only when the loaded pointer "
        "equals current, otherwise the loaded guard is returned and new loses exactly one reference; success returns a guard on current. " + TIE,
   note=NOTE + "Run level (ASModel/LinCas*.v, all schedules within Main.RunOK): C05_cas_linearizable - a completed compare_and_swap(current=a, new=b) returns p; if p<>a no step of the call "
        "wrote the container and p was its content in a state between call and return; if p=a exactly one step of the call wrote it and replaced exactly a by b. A-B-A: C05_no_aba (ASModel/Alive.v, all schedules within Main.RunOK) - while the exchange frame exists the compared value is the guarded one, it is alive and the "
        "object at that address stays the same object across every step of any thread; the forms of `current` are compared by the sequential differential run (C14). Also proved for runs in which the non-SeqCst loads of the read side return stale values (Stale2.step_stale2, RunOKS2; theorems *_stale2 pinned in this property's Props file).",
   technique="Rocq/Coq proof (step lemmas on the model) + trace correspondence"),
 "C06": dict(engine="ASModel",
   text="Coq theorems over ASModel: every rcu attempt exchanges against exactly the pointer whose guard was passed to the closure, a "
        "failed attempt continues with the reported value, a successful one returns the replaced value; with C05/C04 the installed value "
        "sits directly on top of the value read. " + TIE,
   note=NOTE + "Run level (ASModel/LinCasRcu.v, all schedules within Main.RunOK): C06_rcu_linearizable - a completed rcu returns the previous value q, exactly one step of the call wrote the "
        "container, replacing exactly q by what the closure made from q in that attempt; failed attempts wrote nothing. C06_guard_keeps_identity: the guard rcu holds keeps the closure's input alive and identical across every step (all schedules within Main.RunOK). The counting "
        "corollary (k increments add k) is checked by the correspondence oracle. Also proved for runs in which the non-SeqCst loads of the read side return stale values (Stale2.step_stale2, RunOKS2; theorems *_stale2 pinned in this property's Props file).",
   technique="Rocq/Coq proof (step lemmas on the model) + trace correspondence"),
 "C08": dict(engine="ASModel",
   text="Coq theorems over ASModel: a strictly decreasing measure on the program points of load/load_full that holds in every shared "
        "state and for every scheduler choice, lifted to every schedule (read_wait_free: at most K_load=28 / K_load_full=31 own steps); "
        "steps of other threads provably do not touch the reader. " + TIE + " Freeze sweeps (all other threads suspended at every point) "
        "search for a reader that cannot finish alone.",
   note=NOTE + "First use of a thread (Node::get) is outside the bound; the generation-wrap cooldown is inside it. The bound is also proved when the reader's non-SeqCst loads "
        "(first read, slot scan) return stale values (C08_wait_free_bound_stale2 over Stale2.step_stale2; harness policy 'stale2').",
   technique="Rocq/Coq proof (measure, induction over schedules) + trace correspondence"),
}


CLAIMS.update({
 "C09": dict(engine="ASModel",
   text="Coq theorems over ASModel: no step of any thread reads or changes another thread's frames (what a thread does next depends only on its own "
        "frame and the shared memory: there is no program point that waits for another thread), the re-read in `help` retries only when the control "
        "word changed, the weak exchange fails only on change or spuriously (C05), the nested replacement load is wait-free (C08). " + TIE +
        " Freeze sweeps suspend every other thread at every point of scenario programs and require the solo thread to finish its operation.",
   note=NOTE + "Partial: the closed solo-completion bound B(number of nodes) is not yet one theorem; it is searched by the freeze sweeps (3000-step budget).",
   technique="Rocq/Coq proof (frame-locality lemmas) + trace correspondence + solo-completion sweeps"),
 "C11": dict(engine="ASModel",
   text="Coq theorem C11_exclusive over ASModel: in EVERY reachable state (any schedule, any number of threads ever started, any programs) a "
        "debt node has at most one holder - the thread whose LocalNode points to it or the thread running its cooldown - and in_use = USED exactly "
        "when it has one (clause of the inductive invariant InvStep.WF2); the in_use word changes only by COOLDOWN->UNUSED, by the claiming "
        "compare-exchange (which makes the node the claimer's in the same step), by pushing a fresh node, and by its holder's start_cooldown; "
        "sequential churn provably reuses one node (computed example). " + TIE + " Programs with thread join/exit/re-claim; node count and "
        "in_use/writers words compared in the final state; strictly sequential churn must not allocate a second node.",
   note=NOTE + "Known finding D7 (the literal bound <= peak live threads is false when a writer sits inside a cooling node; under an adversarial "
        "scheduler the node count is not bounded by the peak at all) is listed in known_findings.txt and printed as KNOWN-FINDING. Operations after "
        "TLS destruction (temporary LocalNode) are not modelled.",
   technique="Rocq/Coq proof (inductive invariant over all schedules) + trace correspondence"),
 "C13": dict(engine="ASModel",
   text="Coq theorem C13_total over ASModel: NO step of ANY run from ANY initial configuration (any containers, any number of threads, any "
        "programs, any schedule, fast or fallback-only strategy, debug assertions on or off, any value of the generation counter) emits a panic "
        "- every expect/assert/debug_assert/unreachable of the modelled code is a panic outcome of the step function - proved by an inductive "
        "invariant (InvStep.WF2: node ownership, per-program-point assertions on control word / helping slot / active address, well-formed control "
        "words and handover spaces, LocalNode::with nesting) with Owicki-Gries local correctness and interference freedom; WF2 holds in every "
        "reachable state, also after the generation wrap; a concrete run through the wrap is computed. " + TIE + " Programs preset the counter "
        "0-3 transactions before the wrap (verif::set_generation), with and without helpers.",
   note=NOTE + "'After such a wrap-around all other guarantees continue to hold': ASModel/Wrp*.v re-prove the master invariant without the bound on the generation counters "
        "(generation uniqueness with a modular age), for runs of fewer than 2^62 steps in which set_generation is at most the first command of a thread (any value): "
        "C13_wrap_no_use_after_free, C13_wrap_accounting, C13_wrap_load_linearizable hold through the wrap, the cooldown it triggers and the re-claim; C13_wrap_scope_inhabited is a "
        "checked run that wraps with a writer helping on the wrapped generation. Arc counter overflow and allocation failure are out of scope; unwinding of user panics is C18; "
        "hanging is C08/C09. Also proved for runs in which the non-SeqCst loads of the read side return stale values (Stale2.step_stale2, RunOKS2; theorems *_stale2 pinned in this property's Props file).",
   technique="Rocq/Coq proof (inductive invariant over all schedules, Owicki-Gries) + trace correspondence"),
 "C16": dict(engine="ASModel",
   text="Coq theorems over ASModel: C16_cache_linearizable (instrumented runs, all schedules, any number of threads and caches): a completed Cache::new / Cache::load leaves in the "
        "cache a value the underlying container stored in one of the states between the call and the return - on the hit path at the peek (the storage equals the cached address "
        "then), on the miss path at the linearization instant of the inner load_full - hence never an unstored value and at least as new as every store completed before the call; "
        "successive loads of one cache are monotone (cache_loads_monotone); step theorems: a hit touches nothing, a miss performs exactly one load_full and releases the previously "
        "cached value exactly once. " + TIE + " The oracle checks every returned value against the write order on 1-3-preemption sweeps, the grid of the cache A-B-A shape (g06) and "
        "generated cache programs. WEAK MEMORY: the Relaxed revalidating read may return an older value of the storage, and its result is trusted (a stale value equal to the cached pointer "
        "makes the cache keep its old value), so the statement above is false there (C16_stale_not_linearizable is a concrete run). StaleC.step_staleC lets the schedule supply that value; "
        "StaleCView.v tracks the modification order of every container, per-thread views (program order + release/acquire through the storages) and the index a cache holds; "
        "C16_cache_fresh_stale (within RunOKSC, all schedules): the value a completed Cache::new/Cache::load leaves in the cache is write number j of its container with j not older than "
        "anything that happens-before the call and, for a load, not older than what the cache held before - never an unstored value; C16_own_write_seen and C16_view_handover show what "
        "the views contain (own writes; anything handed over through ANY container); C16_no_fault_stale / C16_no_fault_stale3: no use after free in such runs (also with all five "
        "weakened loads). The correspondence runs the real crate with the hook shim answering the revalidating read with older values the thread may still read (harness views with "
        "release/acquire transfer through every atomic location and join; policy 'stale3', scenario s25); the model driver re-checks every supplied value against the model's views "
        "(staleC_okb) and the C16 oracle judges stale loads against happens-before instead of real time.",
   note=NOTE + "Fault freedom with Cache commands is proved as well (ASModel/Cch*.v: the master invariant re-proved with the cache's reference counted in the frames of a running cache "
        "load; C16_no_fault, C16_cache_linearizable_total within RunOKC = RunOK with Cache commands allowed plus 'no other thread touches a cache handle while its load runs'; a checked "
        "run with a hit and a miss inhabits the scope). The freshness theorem assumes that cache handles are not moved between handle indices (NoCacheMove) and that the container is never consumed (never_consumed); "
        "its views see happens-before through program order and the storages only (a lower bound of the real relation: more staleness is allowed than a real execution could show). "
        "The freshness theorem is proved for stale revalidation alone (C16_cache_fresh_stale over step_staleC) and for all five weakened loads together (C16_cache_fresh_stale3 over "
        "step_stale3, the function the model driver runs; RunOKS3). MapCache is not modelled.",
   technique="Rocq/Coq proof (instrumented runs, inductive invariant over all schedules) + trace correspondence with a history oracle"),
 "C18": dict(engine="ASModel",
   text="Coq theorems over ASModel with a panicking rcu closure (panic on a chosen attempt, allocation on earlier ones): the unwind is exactly "
        "the drop of the guard rcu holds, no step of it writes any container, the call reports the panic; a computed run shows container and "
        "counts exact afterwards. " + TIE + " The harness closure really panics (catch_unwind), with guards held and concurrent writers. "
        "Pointee destructors that panic inside an operation are exercised on the real crate under the scheduler (arena objects flagged panic-on-destroy, grids g04/g05: the "
        "destructor panics inside a writer's slot walk while a guard on the removed value sits in a node not yet visited; grid g07: the destructor panics inside a READER, whose "
        "helped fallback releases the last reference of its candidate - defect D9, a leaked replacement, found in wave 4 and repaired in 4a1a8a8; grid g08: the destructor panics inside the load that compare_and_swap performs, the `new` value must be released by the unwinding); "
        "the oracles judge those traces (not modelled).",
   note=NOTE + "Known finding D6 (a destructor panicking inside the slot walk leaks the removed value's reference; memory-safe) is listed in known_findings.txt and printed as "
        "KNOWN-FINDING; it is identified by the leaked object being the value the panicking writer had just removed - any other miscount after a panic is a violation. Panicking Clone and panicking projections are not exercised.",
   technique="Rocq/Coq proof (unwind lemmas) + trace correspondence with real panics"),
 "C15": dict(engine="RefCntModel",
   text="Coq theorems over Seq.RefCntModel (std Arc/Rc/Weak as a heap of (strong, weak, alive) cells whose primitives record every access; hand "
        "transliteration of the six RefCnt impls, the default inc/dec and the sequential container skeleton), for every kind generated by "
        "Arc|Rc|Weak|rc::Weak|Option<_> and every state: round trip preserves object and whole state (value equality for the flat kinds; nested "
        "Option collapse stated explicitly), as_ptr = into_ptr, inc/dec = exactly +-1 of the kind's count with destruction exactly at strong 0, "
        "empty cases <-> null with no cell touched, wf invariant and pointer distinctness, a container of Weak never affects a strong count. Tied "
        "to /repo on every run by a three-way differential run (real trait methods/ArcSwapAny vs extracted model vs independent oracle).",
   note="Theorems are about the model of std; transfer is by the differential run (10 kinds x 7 pointee layouts, count states in coverage). Layout "
        "facts and the allocator are assumptions, sampled. Single-threaded. Trusted: Coq kernel, extraction (ExtrOcamlBasic only), harness/refcnt.",
   technique="Rocq/Coq proof + extracted-model differential testing with an independent oracle"),
 "C17": dict(engine="AccessModel",
   text="Coq theorems over Seq/AccessModel.v (sequential, API-call granularity, any number of threads taking turns; src/access.rs and the hybrid "
        "strategy's debt slots transliterated): an exact reference-count invariant for all client operation sequences; every projection guard "
        "dereferences for its whole life to the chain's projections of the value stored at load time, its snapshot's count stays >= 1, one chain "
        "load = one container load and a load after a completed store projects it, dynamic = static dispatch, Constant yields its own value. Tied "
        "to /repo on every run by differential runs of the real access types (generated static/dyn chains, 3 strategies, 2 flavours, real threads) "
        "compared row by row - atomic loads/swaps via the hook shim, all strong counts, every live guard's value - with the evaluated model.",
   note="No preemption inside an API call (that is C01/C03/C10); one container; chains <= 4 wrappers + base projection in the harness (theorems: "
        "any depth); Rc flavour of DirectDeref not exercised. Trusted: Coq kernel, harness/seqx, tools/runners/access.py.",
   technique="Rocq/Coq proof (inductive invariant over client runs) + sequential differential correspondence"),
 "C20": dict(engine="SerdeModel",
   text="Coq theorems over Seq/SerdeModel.v (src/serde.rs transliterated over a plain-cell container; pointee serializer and format universally "
        "quantified, round-trip contracts are hypotheses in the statement): serialize = tokens of the plain pointer holding the last stored value "
        "incl. None with all counts unchanged, deserialize = from(deserialized pointer) with count exactly 1 and failing exactly when the pointer "
        "type fails, round trip preserves value and tokens. Tied to /repo by differential runs (serde_json + token recorder, 6 pointee types, 2 "
        "flavours, DefaultStrategy/RwLock/FillFastSlots) against the evaluated model and a direct oracle.",
   note="Strategy independence is exercised, not proved (C14); serde's Arc/Option impls and data model are trusted; single-threaded.",
   technique="Rocq/Coq proof + sequential differential correspondence"),
})

 
CLAIMS["C19"] = dict(engine="AutoTraits",
   text="Coq theorems (no axioms) over Marker/AutoTraits.v, Rust's Send/Sync auto-trait rules as total boolean functions on the crate's struct "
        "definitions, explicit Send/Sync impls and associated-type resolutions, which tools/gen_types.py regenerates from /repo/src on every run and "
        "which refuses on anything it cannot render. For 22 wrapper shapes x 9 pointer kinds x 3 strategies x all Send/Sync valuations of the pointee "
        "and other parameters, plus 13 fully-parametric or type-erased shapes: a wrapper is Send/Sync only if what it stores is (C19_sound, "
        "C19_sound_ref, C19_guard_debt), exactly iff (C19_exact), and is Send+Sync when the pointer and stored parameters are (C19_complete). The same "
        "matrix is printed by the extracted Coq code and decided by rustc against /repo every run (quick 20 422 cells, thorough the full 63 190): the "
        "model's verdict must equal rustc's on every (type, trait) pair, and the property is also evaluated directly on rustc's verdicts to produce a "
        "concrete unsound or incomplete instantiation with a replay program.",
   note="The auto-trait rules are a trusted rendering, validated exhaustively against rustc 1.95 on the matrix but not proved; w_spec (what each "
        "wrapper stores) is hand-written; features weak + internal-test-strategies, experimental-thread-local out of scope; parametricity in the "
        "pointee is assumed (4 leaf types plus an opaque user RefCnt kind); private types reach rustc only through Guard.",
   technique="Rocq/Coq proof by kernel-checked exhaustive case analysis (vm_compute + forallb_forall) over a regenerated type table + translation validation against rustc")


PARTIAL_STEP = "Rocq/Coq proof (step theorems for every state and choice + inductive invariants over all schedules where stated) + trace correspondence with history/ownership oracles"
CLAIMS.update({
 "C01": dict(engine="ASModel",
   text="Coq theorems over ASModel, where every count access to a destroyed value is a fault outcome of the step: a decrement destroys exactly at count 1 and "
        "touches no other value; a fast-path guard is handed out only if the storage still holds the published pointer at the confirming read after "
        "the debt became visible; a writer pays a slot iff it holds exactly the removed pointer and then adds exactly one reference; the walk visits "
        "all nine slots of every node below the head it read. Over all schedules: the node a thread publishes debts in is exclusively its own "
        "(C11_exclusive) and no step panics (C13_total). " + TIE + " Any FAULT of the harness arena (access to a freed or reused cell, checked on every "
        "count access and deref of the real crate) or of the model is a finding; 1-3-preemption sweeps, freeze sweeps, the grid of the D8 schedule shape.",
   note=NOTE + "Partial: the closed theorem 'no run reaches a fault' (accounting + protection invariants) is in progress (coq/ASModel/Acc*.v); until "
        "then the all-schedules claim rests on the invariants named above plus the searched correspondence. Weak-memory executions: C07.",
   technique=PARTIAL_STEP),
 "C02": dict(engine="ASModel",
   text="Coq theorems over ASModel: the destructor runs in the very step whose decrement finds the count at 1 (tight), a writer adds exactly one "
        "reference per debt it removes and removes a debt only from a slot holding exactly the removed pointer, a guard gives back its debt or - if it "
        "was paid - exactly one reference, Guard::into_inner takes one reference first; storage changes only by a writer's single exchange and the "
        "exchanges form one chain (C04). " + TIE + " The final-state dump of the real crate (all strong counts, all slots, containers, live objects) must "
        "equal the model's; the oracle requires every value destroyed exactly once at the drop of its last owner and every slot empty once its guard is gone.",
   note=NOTE + "Partial: the closed equation count + slots = containers + handles + frames over all schedules is in progress (coq/ASModel/Acc*.v).",
   technique=PARTIAL_STEP),
 "C03": dict(engine="ASModel",
   text="Coq theorems over ASModel: the writes of a container form ONE chain over every run (all schedules); the value of a fast-path guard is the "
        "content of the storage at the confirming read inside the call; the unhelped fallback returns the content at the candidate read that follows "
        "the publication of the request and keeps it only if the control word still carries that generation; the helped fallback takes the value from "
        "the envelope named by the control word, which a writer fills with a load_full of the storage address the reader announced. " + TIE + " History "
        "oracle: every returned identity was the stored value of that container at some instant between call and return, loads after a completed "
        "write see it or a later one, per-thread monotonic; defect D8 (found by this proof work, repaired in 83d9f2e) is kept as a schedule grid.",
   note=NOTE + "Partial: that the helper's nested load lies inside the reader's call (generation uniqueness per ownership epoch) and the real-time/"
        "monotonicity clauses are not yet theorems over histories. Stale relaxed reads are not modelled (C07 covers the orderings).",
   technique=PARTIAL_STEP),
 "C10": dict(engine="ASModel",
   text="Coq theorems over ASModel: a guard is (pointer, optional slot named by node and index); its drop and into_inner depend only on that pair and "
        "the shared memory, not on the executing thread's node or local state (droppable anywhere, after the creator exited); the drop gives back "
        "exactly the debt or exactly one reference; steps inside other commands change no handle; the fallback returns a fully counted guard; over all "
        "schedules a node's slots receive new debts only from its single holder (C11_exclusive) and a load is wait-free for any number of held "
        "guards (C08). " + TIE + " Oracle: the object identity (not the address) seen through each guard at creation and at drop; programs move guards "
        "between threads, drop them after the creator exited, after the container was dropped or consumed, with > 8 guards held.",
   note=NOTE + "Partial: 'the pointee stays alive and its address is not reused while the guard exists' is C01's protection invariant (in progress). "
        "Operations after TLS destruction are not modelled.",
   technique=PARTIAL_STEP),
 "C12": dict(engine="ASModel",
   text="Coq theorems over ASModel: a step of any frame leaves every other container's storage alone and each container's writes form their own "
        "chain (all schedules); a writer helps a reader only if the reader announced the writer's own storage address, otherwise it re-validates the "
        "control word; a writer pays a slot only if it holds exactly the pointer it removed, and the reader returns an over-payment as exactly one "
        "reference; writers never wait (C09), loads are wait-free (C08). " + TIE + " Oracle: provenance of every loaded identity per container; "
        "multi-container programs incl. one value in several containers; grid of the D8 schedule shape (defects D2 and D8 were violations of this).",
   note=NOTE + "Partial: 'never handed a value only stored in another container' on the helping path over all schedules needs generation uniqueness "
        "(in progress); containers of different pointee types are C15/C19 territory.",
   technique=PARTIAL_STEP),
 "C07": dict(engine="ASModel",
   text="Machine-checked happens-before calculus (coq/Seq/HB.v: sb, rf, release sequences through RMWs, sw derived from the orderings incl. the failure "
        "ordering of a failed CAS and Arc's acquire fence) and the crate's synchronisation skeleton: init hb deref on direct load / fallback / helper "
        "hand-over / returned previous value; deref hb destroy through debt return -> writer walk (a failed pay must acquire) -> Arc drop; writer-pays "
        "variant; SeqCst store-buffering dichotomies (slot vs writer, generation vs writer). Every ordering side condition is computed by eq_refl from "
        "the orderings table regenerated from /repo/src on every run, so a weakened ordering breaks Props/C07.v at the path that needs it; C07_sites "
        "proves the skeleton's event kinds are what ASModel.Step.exec emits; the pre-fix table is refuted (d4_refuted). " + TIE,
   note=NOTE + "Partial: that every execution of the crate decomposes into these chains (the rf/sb hypotheses) is not proved; coherence, SC order and RMW "
        "atomicity are explicit hypotheses; slot_vs_writer assumes walk_not_stale. Miri litmus programs for D4/D5 (harness/litmus/run.sh) are run by hand.",
   technique="Rocq/Coq proof over an axiomatic hb calculus, side conditions from a translator-regenerated table + trace correspondence of orderings"),
})

CLAIMS["C14"] = dict(engine="SeqModel",
   text="Coq theorems over coq/Seq/SeqSpec.v + SeqImpl.v + SeqRefine.v (one thread, API-call granularity, each call written as the code's own sequence of small "
        "transitions): for every program over new/from_pointee/empty, load, load_full, Guard::into_inner/from_inner, drops in any order, store, swap, "
        "compare_and_swap (8 forms of current), rcu, into_inner, several containers, None - each strategy (DefaultStrategy, FillFastSlots, RwLock) returns the "
        "identities of the plain-variable/reference-count specification, count_impl + unpaid debts = count_spec after every step (debts = 0 for RwLock and "
        "FillFastSlots), counts coincide once no guard is alive, compare_and_swap succeeds iff stored = as_raw(current), all forms of current denote one raw "
        "pointer. Tied to /repo on every run by differential execution: generated programs on the real crate with real Arcs under the three strategies vs "
        "the extracted specification and models vs an independent oracle (returned identities and every strong count after every operation).",
   note="The models are hand transliterations for one thread; they predict the real strong_count exactly on every differential program (quick 1555 x 3, "
        "thorough 100 055 x 3). Concurrency is C01-C13. Trusted: Coq kernel, extraction (ExtrOcamlBasic only) + coq/driver/seq_run.ml, harness/seq, tools/runners/seq.py.",
   technique="Rocq/Coq proof (simulation between specification and per-strategy sequential models, induction over programs) + extracted-model differential testing on the real crate")

RUNOK = ("for every run from an initial configuration within Main.RunOK (initial values null or valid addresses; no program uses the set_generation hook or Cache; in "
         "every state no generation counter within 4 of wrapping - which GenLen.v derives for every run of fewer than 2^62 steps (RunOKLen) -, destination handles of commands empty, clone sources not dropped - conditions on the test program that ProgWF.v derives from a decidable well-formedness of the program text (RunStatic), "
         "checked by an extracted mirror on every correspondence run and counted in the evidence; allocator returns addresses that are not live, not null, not the empty-slot marker)")
MASTER = ("The proof is the inductive invariant Main.Master (about 20 000 lines of Coq, no axioms): node ownership and per-program-point assertions (WF2), reservation counting and "
          "generation uniqueness (GenInv), envelope exclusivity (EnvInv), exact accounting (AccInv), slot coverage (ProtInv'), stack typing, and 'no thread has faulted', "
          "each preserved by every step of every thread (step_Master). ")
CLAIMS["C01"].update(
   text="Coq theorem C01_no_use_after_free over ASModel (every count access to a destroyed value is a fault outcome of the model's step): " + RUNOK + ", for any number of threads "
        "and containers, any programs and ANY schedule, no thread ever faults and no step touches the count of a destroyed value (C01_no_fault_events: no fault event at all); "
        "at every count access the value's count is >= 1 (no_dead_access), on the fast path, the fallback and the helped path, for any number of guards, with freed addresses "
        "reused at the scheduler's choice. " + MASTER + TIE + " Any FAULT of the harness arena or the model is a finding; the executable protection invariants run on every state.",
   note=NOTE + "Objects are untyped: the type confusion of known finding D3 (listed under C12, reproduced by harness/typed) is outside this theorem. Sequentially consistent interleavings except: The loads of the read side that are not SeqCst may be stale: Stale2.step_stale2 answers the Relaxed first read of the fast path (ANY non-null value), the Relaxed slot scan, the Acquire look at in_use in check_cooldown and the Relaxed head read before the push loop with values the schedule chooses, and the theorems are re-proved for such runs (StaleInv*.v / Stale2Inv*.v, scopes RunOKS / RunOKS2, pinned as *_stale / *_stale2; the correspondence runs the real crate with the hook shim answering those loads with older values of the location that coherence and happens-before still permit: policies 'stale', 'stale2'). Other weak-memory behaviour: C07. The generation wrap is outside RunOK (C13 proves no panic there; correspondence with preset counters). "
        "Cache commands are outside RunOK (C16).",
   technique="Rocq/Coq proof (inductive invariant over all schedules: accounting + protection + exchange of finite sums) + trace correspondence")
CLAIMS["C02"].update(
   text="Coq theorems over ASModel, " + RUNOK + ", any schedule: C02_accounting - in EVERY state, for every value address a: count(a) + #slots holding a + #increments a writer "
        "still owes = #containers storing a + #hand-over envelopes holding a + #handles + #references held by frames (table AccDefs.fr), and a value is alive iff its count is "
        "positive; C02_quiescent_counts - when no operation is in progress the count equals containers + handles minus the debts still in slots; C02_no_owner_destroyed - a "
        "value nobody owns has count 0, is destroyed, and no slot holds it; the destructor runs in the very step whose decrement finds the count at 1 (tight). " + MASTER + TIE +
        " The same equation is evaluated by the model driver on every state of every run, the final-state dump (all strong counts, slots, containers, live objects) must equal the model's.",
   note=NOTE + "Cache commands and the generation wrap are outside RunOK (accounting with them: CchAcc, C02_accounting_wrap). Also proved with stale non-SeqCst loads of the read side (C02_accounting_stale2, RunOKS2).",
   technique="Rocq/Coq proof (inductive counting invariant over all schedules, finitely supported sums) + trace correspondence + executable invariant on every state")
CLAIMS["C03"].update(
   text="Coq theorem C03_load_linearizable over ASModel (runs instrumented with a clock and the latest time each container held each value), " + RUNOK + ", any schedule: a completed "
        "load / load_full of container c holds a value that c stored in one of the states between the call and the return - fast path (the confirming read), unhelped fallback "
        "(candidate read after the request was published), helped fallback (the helper loaded the value after reading the request's generation, unique while it stays in the node: "
        "GenInv; the envelope is not overwritten before the reader takes it: EnvInv); with the write chain (all writes of a container form ONE chain, all schedules) this gives the "
        "real-time and per-thread monotonicity clauses. Defect D8 (a load returning another container's value) was found by planning this proof and repaired (83d9f2e). " + TIE +
        " History oracle on every trace; grids of the D8 and stale-replacement schedule shapes.",
   note=NOTE + "The loads of the read side that are not SeqCst may be stale: Stale2.step_stale2 answers the Relaxed first read of the fast path (ANY non-null value), the Relaxed slot scan, the Acquire look at in_use in check_cooldown and the Relaxed head read before the push loop with values the schedule chooses, and the theorems are re-proved for such runs (StaleInv*.v / Stale2Inv*.v, scopes RunOKS / RunOKS2, pinned as *_stale / *_stale2; the correspondence runs the real crate with the hook shim answering those loads with older values of the location that coherence and happens-before still permit: policies 'stale', 'stale2'). Other weak-memory behaviour: C07. Loads inside compare_and_swap/rcu/cache are not claimed here (C05/C06/C16).",
   technique="Rocq/Coq proof (instrumented runs, inductive invariant over all schedules) + trace correspondence with a history oracle")
CLAIMS["C09"].update(
   text="Coq theorems over ASModel: (ProgressW) from every state satisfying the inductive invariant WF2 - hence every reachable state - a thread running alone while all others are "
        "frozen wherever they are leaves its current store/swap/compare_and_swap/rcu/into_inner/drop after at most mu own steps, an explicit strictly decreasing measure; from a command "
        "start: 68*H + k + 80 steps for swap-like operations, O(k*H + k^2 + H) for compare_and_swap and rcu (H debt nodes, k spurious weak-CAS failures injected by the scheduler); "
        "no step reads or changes another thread's frames; nested helping loads are wait-free (C08). " + TIE + " Freeze sweeps suspend every other thread at every point of "
        "scenario programs (incl. a fallback reader of a different container) and require the solo thread to finish.",
   note=NOTE + "Faults and panics count as finished (excluded by C01/C13). Also proved for runs in which the non-SeqCst loads of the read side return stale values (Stale2.step_stale2, RunOKS2; theorems *_stale2 pinned in this property's Props file).",
   technique="Rocq/Coq proof (decreasing measure over all states of the invariant, induction over solo schedules) + trace correspondence + solo-completion sweeps")
CLAIMS["C10"].update(
   text="Coq theorems over ASModel, " + RUNOK + ", any schedule: C10_guard_keeps_value - in every state the value a guard or owned handle refers to is alive; C10_guard_keeps_identity - "
        "across every step that leaves the handle in place the object at that address is the same object (not destroyed, address not reused), whatever is stored meanwhile, after "
        "the container is dropped, after the creating thread exited and its node was re-claimed; a guard is (pointer, slot named by node and index) and its drop/into_inner depend "
        "only on that pair and the shared memory, not on the executing thread; the drop gives back exactly the debt or exactly one reference (accounting: C02). " + MASTER + TIE +
        " Oracle: object identity seen through each guard at creation and at drop; guards moved between threads, > 8 guards held.",
   note=NOTE + "Operations after TLS destruction are not modelled (tested on the crate by harness/late, see C11). Also proved for runs in which the non-SeqCst loads of the read side return stale values (Stale2.step_stale2, RunOKS2; theorems *_stale2 pinned in this property's Props file).",
   technique="Rocq/Coq proof (inductive invariant over all schedules) + trace correspondence with an identity oracle")
CLAIMS["C11"].update(
   text="Coq theorems over ASModel, all schedules: C11_exclusive - in every reachable state a debt node has at most one holder and in_use = USED exactly when it has one; "
        "C11_reservations - the active_writers word of every node equals the number of frames holding a reservation in it, a node is never marked UNUSED, and a node changes owner "
        "only when no writer is inside (GenInv, under GenBound); sequential churn provably reuses one node (computed). " + TIE + " Oracles: node count / in_use / writers in the final "
        "state, no claim of a node while a writer that read its control word still walks it; grid of the D8 schedule shape; harness/late runs operations from thread-local "
        "destructors after arc-swap's own TLS is gone (the clause the model does not cover) on the real crate.",
   technique="Rocq/Coq proof (inductive invariants over all schedules) + trace correspondence + a TLS-shutdown test on the crate")
CLAIMS["C12"].update(
   text="Coq theorems over ASModel, " + RUNOK + ", any schedule, any number of containers sharing the nodes: C12_load_own_container - the value a completed load/load_full of container c "
        "holds was the content of THIS container in a state between call and return, also on the helping path; C12_help_same_container - a writer's successful exchange of a control "
        "word answers a request for the writer's own container (generation uniqueness); C12_accounting - the count equation is exact with one value in several containers; a step of "
        "any frame leaves other containers' storage alone, each container's writes form their own chain. Defects D2 and D8 were violations of this, found and repaired. " + TIE +
        " Provenance oracle per container; multi-container programs; D8 grid.",
   note=NOTE + "Objects of the model are untyped. Containers of DIFFERENT pointee types: known finding D3 (a reader releases, as its own type, a reference a writer of another "
        "container put on an object of another type at a reused address: type confusion) is reproduced deterministically on the real crate by harness/typed on every run and printed "
        "as KNOWN-FINDING; the same-type control must behave correctly. Also proved for runs in which the non-SeqCst loads of the read side return stale values (Stale2.step_stale2, RunOKS2; theorems *_stale2 pinned in this property's Props file).",
   technique="Rocq/Coq proof (inductive invariants over all schedules) + trace correspondence with a provenance oracle")

REASONS = {}

def main():
    props = [json.loads(l) for l in open(os.path.join(ROOT, "properties.jsonl"))]
    hooks = {"guard": "arc_swap_verif",
             "enable": "RUSTFLAGS=\"--cfg arc_swap_verif\" (set in /verif/harness/.cargo/config.toml)",
             "baseline_off_cmd": "cd /repo && cargo test --workspace --no-fail-fast --offline",
             "source_commits": ["d80d6a0", "afd49fe"], "add_only": True}
    m = {"version": 1, "setup_cmd": "cd /verif && bin/build all", "hooks": hooks,
         "engines": [
             {"name": "ASModel", "path": "/verif/coq", "serves_properties": sorted(k for k, v in CLAIMS.items() if v["engine"] == "ASModel"),
              "kind_free_text": "Coq 8.16 development: executable model of the crate (one atomic access per step) + theorems; extracted to OCaml for trace replay; harness/conc runs the real crate under a controlled scheduler"},
             {"name": "RefCntModel", "path": "/verif/coq/Seq", "serves_properties": ["C15"], "kind_free_text": "Coq model of std Arc/Rc/Weak + the RefCnt impls; harness/refcnt differential run"},
             {"name": "AccessModel", "path": "/verif/coq/Seq", "serves_properties": ["C17"], "kind_free_text": "Coq model of src/access.rs over a sequential store; harness/seqx differential run"},
             {"name": "AutoTraits", "path": "/verif/coq/Marker", "serves_properties": ["C19"], "kind_free_text": "Coq model of Rust's auto-trait rules over a type table regenerated from /repo by tools/gen_types.py; harness/marker validates against rustc"},
             {"name": "SeqModel", "path": "/verif/coq/Seq", "serves_properties": ["C14"], "kind_free_text": "Coq specification + sequential models of the three strategies with a proven simulation; harness/seq differential run on the real crate"},
             {"name": "SerdeModel", "path": "/verif/coq/Seq", "serves_properties": ["C20"], "kind_free_text": "Coq model of src/serde.rs; harness/seqx differential run"},
         ],
         "checks": [], "not_applicable": [],
         "notes": "All 20 properties are decided by Coq theorems plus a checked tie to /repo. Fix commits in /repo: 45d9e22 (D4), bae028e (D5), d277032 (D2), 505454e (D1), 83d9f2e (D8), 4a1a8a8 (D9); see known_findings.txt and DESIGN.md."}
    for p in props:
        pid = p["id"]
        if pid in CLAIMS:
            c = CLAIMS[pid]
            m["checks"].append({
                "property_id": pid,
                "quick_cmd": "bin/check %s --tier quick" % pid,
                "thorough_cmd": "bin/check %s --tier thorough" % pid,
                "evidence_file": "/verif/evidence/%s.json" % pid,
                "replay_cmd_template": "bin/check %s --replay {path}" % pid,
                "engine": c["engine"],
                "level_claimed": {"category": "proof", "text": c["text"], "design_ref": "DESIGN.md §4 " + pid},
                "level_note": c["note"], "technique": c["technique"]})
        else:
            m["not_applicable"].append({"property_id": pid, "reason": REASONS.get(pid,
                "not yet claimed in this commit: its theorem file is still being written (the model/harness it will use exist); it will be claimed when bin/check for it passes")})
    json.dump(m, open(os.path.join(ROOT, "MANIFEST.json"), "w"), indent=1)

if __name__ == "__main__":
    main()
