#!/usr/bin/env python3
"""Writes /verif/MANIFEST.json from the table below (kept next to the code so that claims and
checks move together)."""
import json, os
ROOT = os.path.dirname(os.path.dirname(os.path.abspath(__file__)))

TIE = ("The model is tied to /repo on every run: the orderings table is regenerated from the source by a translator, and the "
       "hand-written model is validated by trace correspondence (real crate built with --cfg arc_swap_verif under a controlled "
       "scheduler vs the extracted model replaying the same schedule; every atomic event, count operation, API result and the final "
       "state are compared), on preemption sweeps of scenario programs and on generated programs x schedules.")
NOTE = ("Theorems are about ASModel (coq/ASModel, sequentially consistent interleavings, one atomic access per step); they transfer to "
        "/repo as far as the correspondence reaches (counted in the evidence). Trusted: Coq kernel, tools/gen_orderings.py, extraction "
        "(ExtrOcamlBasic only) + OCaml driver, src/verif.rs shim + harness/conc, tools/corr.py. ")

CLAIMS = {
 "C04": dict(engine="ASModel",
   text="Coq theorems over ASModel, for every schedule and any number of threads: the storage of a container changes only through "
        "successful swap/compare_exchange events, and over a whole run these writes form one chain in which every write replaces exactly "
        "what its predecessor wrote (store_chain, by induction over schedules); the swap frame hands back exactly the replaced value. " + TIE,
   note=NOTE + "Partial: the 'exactly once / owns a full reference' half needs the ownership invariant (stated in Props/C04.v, covered "
        "by the correspondence oracle only).",
   technique="Rocq/Coq proof (induction over schedules) + trace correspondence"),
 "C05": dict(engine="ASModel",
   text="Coq theorems over ASModel (all states, all scheduler choices incl. spurious failure): the exchange step of compare_and_swap "
        "writes iff the stored pointer equals current at that step and then stores exactly new; it is reached only when the loaded pointer "
        "equals current, otherwise the loaded guard is returned and new loses exactly one reference; success returns a guard on current. " + TIE,
   note=NOTE + "Partial: local step theorems; identity (not address) equality under A-B-A needs the protection invariant; the five forms "
        "of `current` are compared by the sequential differential run.",
   technique="Rocq/Coq proof (step lemmas on the model) + trace correspondence"),
 "C06": dict(engine="ASModel",
   text="Coq theorems over ASModel: every rcu attempt exchanges against exactly the pointer whose guard was passed to the closure, a "
        "failed attempt continues with the reported value, a successful one returns the replaced value; with C05/C04 the installed value "
        "sits directly on top of the value read. " + TIE,
   note=NOTE + "Partial: the counting corollary over all schedules (k increments add k) is checked by the correspondence oracle only.",
   technique="Rocq/Coq proof (step lemmas on the model) + trace correspondence"),
 "C08": dict(engine="ASModel",
   text="Coq theorems over ASModel: a strictly decreasing measure on the program points of load/load_full that holds in every shared "
        "state and for every scheduler choice, lifted to every schedule (read_wait_free: at most K_load=28 / K_load_full=31 own steps); "
        "steps of other threads provably do not touch the reader. " + TIE + " Freeze sweeps (all other threads suspended at every point) "
        "search for a reader that cannot finish alone.",
   note=NOTE + "First use of a thread (Node::get) is outside the bound; the generation-wrap cooldown is inside it.",
   technique="Rocq/Coq proof (measure, induction over schedules) + trace correspondence"),
}

REASONS = {}

def main():
    props = [json.loads(l) for l in open(os.path.join(ROOT, "properties.jsonl"))]
    hooks = {"guard": "arc_swap_verif",
             "enable": "RUSTFLAGS=\"--cfg arc_swap_verif\" (set in /verif/harness/.cargo/config.toml)",
             "baseline_off_cmd": "cd /repo && cargo test --workspace --no-fail-fast --offline",
             "source_commits": ["d80d6a0", "afd49fe"], "add_only": True}
    m = {"version": 1, "setup_cmd": "cd /verif && bin/build all", "hooks": hooks,
         "engines": [
             {"name": "ASModel", "path": "/verif/coq", "serves_properties": sorted(k for k, v in CLAIMS.items() if v["engine"] == "ASModel"),
              "kind_free_text": "Coq 8.16 development: executable model of the crate (one atomic access per step) + theorems; extracted to OCaml for trace replay; harness/conc runs the real crate under a controlled scheduler"},
         ],
         "checks": [], "not_applicable": [],
         "notes": "Fix commits in /repo: 45d9e22 (D4), bae028e (D5), d277032 (D2), 505454e (D1); see known_findings.txt and DESIGN.md §6."}
    for p in props:
        pid = p["id"]
        if pid in CLAIMS:
            c = CLAIMS[pid]
            m["checks"].append({
                "property_id": pid,
                "quick_cmd": "bin/check %s --tier quick" % pid,
                "thorough_cmd": "bin/check %s --tier thorough" % pid,
                "evidence_file": "/verif/evidence/%s.json" % pid,
                "replay_cmd_template": "bin/check %s --replay {path}" % pid,
                "engine": c["engine"],
                "level_claimed": {"category": "proof", "text": c["text"], "design_ref": "DESIGN.md §4 " + pid},
                "level_note": c["note"], "technique": c["technique"]})
        else:
            m["not_applicable"].append({"property_id": pid, "reason": REASONS.get(pid,
                "not yet claimed in this commit: its theorem file is still being written (the model/harness it will use exist); it will be claimed when bin/check for it passes")})
    json.dump(m, open(os.path.join(ROOT, "MANIFEST.json"), "w"), indent=1)

if __name__ == "__main__":
    main()
