#!/usr/bin/env python3
"""Translator: atomic call sites of /repo/src -> coq/ASModel/Orderings_gen.v (+ JSON).

Every atomic access in the non-test, non-instrumentation code of the crate is located
(file, enclosing fn, receiver, method, occurrence index inside the fn) and its ordering
arguments are read off the source.  The set of sites must be exactly the set the
hand-written model knows (EXPECTED below: name -> key); anything else is a refusal
(exit 2) and the caller treats it as a broken correspondence.
"""
import re, sys, json, os

REPO = os.environ.get("VERIF_REPO", "/repo")
FILES = ["src/lib.rs", "src/cache.rs", "src/strategy/hybrid.rs", "src/strategy/rw_lock.rs",
         "src/debt/mod.rs", "src/debt/fast.rs", "src/debt/helping.rs", "src/debt/list.rs"]
METHODS = ["load", "store", "swap", "compare_exchange_weak", "compare_exchange", "fetch_add", "fetch_sub"]
ORDS = ["Relaxed", "Acquire", "Release", "AcqRel", "SeqCst"]

def strip_comments(src):
    out = []; i = 0; n = len(src)
    while i < n:
        if src.startswith("//", i):
            j = src.find("\n", i); j = n if j < 0 else j
            i = j
        elif src.startswith("/*", i):
            j = src.find("*/", i + 2); j = n if j < 0 else j + 2
            out.append(" " * 0); i = j
        elif src[i] == '"':
            j = i + 1
            while j < n and src[j] != '"':
                j += 2 if src[j] == "\\" else 1
            out.append('""'); i = j + 1
        else:
            out.append(src[i]); i += 1
    return "".join(out)

def cut_tests(src):
    # drop #[cfg(test)] mod ... { ... } blocks and macro_rules! t! test generators
    for pat in [r"#\[cfg\(test\)\]\s*mod\s+\w+\s*\{", r"macro_rules!\s*t\s*\{"]:
        while True:
            m = re.search(pat, src)
            if not m: break
            depth = 0; j = m.end() - 1
            while j < len(src):
                if src[j] == "{": depth += 1
                elif src[j] == "}":
                    depth -= 1
                    if depth == 0: break
                j += 1
            src = src[:m.start()] + src[j + 1:]
    return src

def cut_verif(src):
    # drop items guarded by #[cfg(arc_swap_verif)] (instrumentation accessors)
    while True:
        m = re.search(r"#\[cfg\(arc_swap_verif\)\]\s*(impl[^{;]*\{|pub mod \w+;|use [^;]*;)", src)
        if not m: break
        if src[m.end() - 1] == "{":
            depth = 0; j = m.end() - 1
            while j < len(src):
                if src[j] == "{": depth += 1
                elif src[j] == "}":
                    depth -= 1
                    if depth == 0: break
                j += 1
            src = src[:m.start()] + src[j + 1:]
        else:
            src = src[:m.start()] + src[m.end():]
    return src

def split_args(s):
    args = []; depth = 0; cur = ""
    for ch in s:
        if ch in "([{": depth += 1
        if ch in ")]}": depth -= 1
        if ch == "," and depth == 0:
            args.append(cur.strip()); cur = ""
        else:
            cur += ch
    if cur.strip(): args.append(cur.strip())
    return args

def sites_of(path):
    src = cut_verif(cut_tests(strip_comments(open(os.path.join(REPO, path)).read())))
    # enclosing fn spans
    fns = [(m.start(), m.group(1)) for m in re.finditer(r"\bfn\s+(\w+)", src)]
    res = []; counters = {}
    for m in re.finditer(r"\.\s*(%s)\s*\(" % "|".join(METHODS), src):
        meth = m.group(1)
        j = m.end(); depth = 1
        while j < len(src) and depth:
            if src[j] == "(": depth += 1
            elif src[j] == ")": depth -= 1
            j += 1
        args = split_args(src[m.end():j - 1])
        ords = [a.replace("Ordering::", "") for a in args if a.replace("Ordering::", "") in ORDS]
        if not ords:
            continue  # not an atomic call (e.g. Access::load(), Cell::swap ...)
        k = m.start()
        recv = re.search(r"([\w\.\(\)\*&]+)\s*$", src[max(0, k - 80):k].replace("\n", " ").replace(" ", ""))
        recv = recv.group(1) if recv else "?"
        recv = recv.lstrip("(&*")
        fn = "?"
        for pos, name in fns:
            if pos < k: fn = name
        key0 = (path, fn, meth)
        idx = counters.get(key0, 0); counters[key0] = idx + 1
        res.append({"file": path, "fn": fn, "recv": recv, "method": meth, "idx": idx,
                    "ords": ords, "nargs": len(args)})
    return res

# name used by the model -> (file, fn, method, idx)
EXPECTED = {
 "o_lib_swap":            ("src/lib.rs", "swap", "swap", 0),
 "o_cache_revalidate":    ("src/cache.rs", "revalidate", "load", 0),
 "o_attempt_first":       ("src/strategy/hybrid.rs", "attempt", "load", 0),
 "o_attempt_confirm":     ("src/strategy/hybrid.rs", "attempt", "load", 1),
 "o_fallback_candidate":  ("src/strategy/hybrid.rs", "fallback", "load", 0),
 "o_cas_exchange":        ("src/strategy/hybrid.rs", "compare_and_swap", "compare_exchange_weak", 0),
 "o_rwlock_load":         ("src/strategy/rw_lock.rs", "load", "load", 0),
 "o_rwlock_cas":          ("src/strategy/rw_lock.rs", "compare_and_swap", "compare_exchange", 0),
 "o_pay":                 ("src/debt/mod.rs", "pay", "compare_exchange", 0),
 "o_fast_scan":           ("src/debt/fast.rs", "get_debt", "load", 0),
 "o_fast_publish":        ("src/debt/fast.rs", "get_debt", "swap", 0),
 "o_help_active_addr_st": ("src/debt/helping.rs", "get_debt", "store", 0),
 "o_help_gen_swap":       ("src/debt/helping.rs", "get_debt", "swap", 0),
 "o_help_own_ctrl_dbg":   ("src/debt/helping.rs", "help", "load", 0),
 "o_help_ctrl_load":      ("src/debt/helping.rs", "help", "load", 1),
 "o_help_active_addr_ld": ("src/debt/helping.rs", "help", "load", 2),
 "o_help_ctrl_reload":    ("src/debt/helping.rs", "help", "load", 3),
 "o_help_their_space":    ("src/debt/helping.rs", "help", "load", 4),
 "o_help_my_space":       ("src/debt/helping.rs", "help", "load", 5),
 "o_help_env_store":      ("src/debt/helping.rs", "help", "store", 0),
 "o_help_ctrl_cas":       ("src/debt/helping.rs", "help", "compare_exchange", 0),
 "o_help_offer_store":    ("src/debt/helping.rs", "help", "store", 1),
 "o_confirm_slot_swap":   ("src/debt/helping.rs", "confirm", "swap", 0),
 "o_confirm_ctrl_swap":   ("src/debt/helping.rs", "confirm", "swap", 1),
 "o_confirm_env_load":    ("src/debt/helping.rs", "confirm", "load", 0),
 "o_confirm_offer_store": ("src/debt/helping.rs", "confirm", "store", 0),
 "o_resv_sub":            ("src/debt/list.rs", "drop", "fetch_sub", 0),
 "o_traverse_head":       ("src/debt/list.rs", "traverse", "load", 0),
 "o_cooldown_swap":       ("src/debt/list.rs", "start_cooldown", "swap", 0),
 "o_check_inuse":         ("src/debt/list.rs", "check_cooldown", "load", 0),
 "o_check_writers":       ("src/debt/list.rs", "check_cooldown", "load", 1),
 "o_check_cas":           ("src/debt/list.rs", "check_cooldown", "compare_exchange", 0),
 "o_check_back":          ("src/debt/list.rs", "check_cooldown", "store", 0),
 "o_resv_add":            ("src/debt/list.rs", "reserve_writer", "fetch_add", 0),
 "o_get_claim":           ("src/debt/list.rs", "get", "compare_exchange", 0),
 "o_get_head_relaxed":    ("src/debt/list.rs", "get", "load", 0),
 "o_get_push":            ("src/debt/list.rs", "get", "compare_exchange_weak", 0),
 "o_dbg_inuse_fast":      ("src/debt/list.rs", "new_fast", "load", 0),
 "o_dbg_inuse_helping":   ("src/debt/list.rs", "new_helping", "load", 0),
 "o_dbg_inuse_confirm":   ("src/debt/list.rs", "confirm_helping", "load", 0),
 "o_dbg_inuse_help":      ("src/debt/list.rs", "help", "load", 0),
}

def main():
    out_v = sys.argv[1] if len(sys.argv) > 1 else None
    out_json = sys.argv[2] if len(sys.argv) > 2 else None
    sites = []
    for f in FILES:
        sites += sites_of(f)
    bykey = {(s["file"], s["fn"], s["method"], s["idx"]): s for s in sites}
    problems = []
    used = set()
    table = {}
    for name, key in EXPECTED.items():
        s = bykey.get(key)
        if s is None:
            problems.append("missing site %s %r" % (name, key)); continue
        used.add(key)
        o = s["ords"]
        if len(o) == 1: o = [o[0], o[0]]
        if len(o) != 2:
            problems.append("site %s: cannot read orderings %r" % (name, o)); continue
        table[name] = o
    for key, s in bykey.items():
        if key not in used:
            problems.append("unknown atomic site %r (recv %s, ords %s)" % (key, s["recv"], s["ords"]))
    # syntactic fact used by the memory semantics: every plain store of the crate is SeqCst
    for s in sites:
        if s["method"] == "store" and s["ords"] != ["SeqCst"]:
            problems.append("plain store that is not SeqCst: %r" % ((s["file"], s["fn"], s["idx"]),))
    if out_json:
        json.dump({"sites": sites, "table": table, "problems": problems}, open(out_json, "w"), indent=1)
    if problems:
        for p in problems: print("gen_orderings: " + p, file=sys.stderr)
        sys.exit(2)
    if out_v:
        lines = ["(* GENERATED by tools/gen_orderings.py from %s/src — do not edit. *)" % REPO,
                 "From ASModel Require Import Base.", ""]
        for name in EXPECTED:
            o = table[name]
            lines.append("Definition %s : ord * ord := (%s, %s)." % (name, o[0], o[1]))
        lines.append("")
        lines.append("Definition all_sites : list (ord * ord) := [" + "; ".join(EXPECTED) + "].")
        new = "\n".join(lines) + "\n"
        old = open(out_v).read() if os.path.exists(out_v) else None
        if old != new:
            open(out_v, "w").write(new)
    print("gen_orderings: %d sites ok" % len(table))

if __name__ == "__main__":
    main()
