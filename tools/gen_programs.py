#!/usr/bin/env python3
"""Generator of harness programs (threads x commands over the public API).

Every random choice comes from one `random.Random(seed)`.  Programs are well-formed by
construction: a handle is created once, consumed at most once and only used by a thread
that can be sure it exists (its own, or one of a lower-numbered thread, for which the
scheduler's enabledness rule makes it wait).
"""
import random

ARENA_BASE = 0x1000
WRAP = 2 ** 64


class Gen:
    def __init__(self, rng, family):
        self.rng = rng
        self.family = family
        self.next_handle = 1
        self.next_cell = 0

    def handle(self):
        h = self.next_handle
        self.next_handle += 1
        return h

    def init_addr(self):
        a = ARENA_BASE + 16 * self.next_cell
        self.next_cell += 1
        return a


def gen_program(seed, family):
    rng = random.Random(seed)
    g = Gen(rng, family)
    fast = 1
    if family in ("nofast", "helping"):
        fast = 0
    elif family in ("mixed", "cas", "multi", "churn", "wrap") and rng.random() < 0.35:
        fast = 0
    ncont = 1
    if family in ("multi",):
        ncont = rng.randint(2, 3)
    elif family in ("mixed", "cas", "cache") and rng.random() < 0.3:
        ncont = 2
    inits = []
    for c in range(ncont):
        r = rng.random()
        if r < 0.15:
            inits.append(0)
        elif r < 0.3 and c > 0 and inits[0] != 0:
            inits.append(inits[0])  # one value shared among containers
        else:
            inits.append(g.init_addr())
    group = 0
    if family == "seqchurn":
        nthreads = rng.randint(4, 8)
        group = rng.randint(1, 2)
    elif family == "churn":
        nthreads = rng.randint(3, 6)
    elif family in ("basic", "wrap"):
        nthreads = rng.randint(1, 2)
    else:
        nthreads = rng.randint(2, 4)
    threads = []
    exported = []  # (handle, kind) created by lower threads and left for others to consume
    for t in range(nthreads):
        cmds = []
        owned = []   # owned handles of this thread
        guards = []  # guard handles
        caches = []
        if group and t >= group:
            cmds.append("join %d" % (t - group))
        if family in ("churn", "seqchurn"):
            ncmd = rng.randint(1, 5)
        elif family == "guards":
            ncmd = rng.randint(10, 24)
        else:
            ncmd = rng.randint(3, 14)
        if family == "wrap" and t == 0:
            # place the generation counter 0-3 transactions before the wrap
            k = rng.randint(0, 3)
            cmds.append("setgen %d" % (WRAP - 4 * (k + 1)))
            if fast == 1:
                # hold 8 guards so that loads take the fallback path
                for _ in range(8):
                    h = g.handle(); cmds.append("load %d %d" % (rng.randrange(ncont), h)); guards.append(h)
        if family == "guards" and t == 0:
            for _ in range(rng.randint(6, 9)):
                h = g.handle(); cmds.append("load %d %d" % (rng.randrange(ncont), h)); guards.append(h)
        for _ in range(ncmd):
            c = rng.randrange(ncont)
            ops = ["load", "load", "loadfull", "dropg", "store", "swap", "new", "dropo"]
            if family in ("cas", "mixed", "multi", "helping", "panic"):
                ops += ["cas", "cas", "rcu"]
            if family == "panic":
                ops += ["rcu", "rcu", "rcu", "store"]
            if family == "cas":
                ops += ["cas", "rcu", "rcu"]
            if family in ("cache",):
                ops += ["cachenew", "cacheload", "cacheload", "cacheload", "store"]
            if family in ("guards", "wrap"):
                ops += ["load", "load", "load", "ginto"]
            if family in ("mixed", "multi"):
                ops += ["ginto", "clone", "store", "steal"]
            if family in ("nofast", "helping"):
                ops += ["store", "swap", "store", "load"]
            op = rng.choice(ops)
            if op == "load":
                h = g.handle(); cmds.append("load %d %d" % (c, h)); guards.append(h)
            elif op == "loadfull":
                h = g.handle(); cmds.append("loadfull %d %d" % (c, h)); owned.append(h)
            elif op == "dropg" and guards:
                h = guards.pop(rng.randrange(len(guards))); cmds.append("drop %d" % h)
            elif op == "dropo" and owned:
                h = owned.pop(rng.randrange(len(owned))); cmds.append("drop %d" % h)
            elif op == "new":
                h = g.handle(); cmds.append("new %d" % h); owned.append(h)
            elif op == "clone" and (owned or guards):
                src = rng.choice(owned + guards); h = g.handle()
                cmds.append("clone %d %d" % (src, h)); owned.append(h)
            elif op == "ginto" and guards:
                h = guards.pop(rng.randrange(len(guards))); h2 = g.handle()
                cmds.append("ginto %d %d" % (h, h2)); owned.append(h2)
            elif op in ("store", "swap"):
                r = rng.random()
                if r < 0.15:
                    src = "-"
                elif owned and r < 0.6:
                    src = str(owned.pop(rng.randrange(len(owned))))
                else:
                    h = g.handle(); cmds.append("new %d" % h); src = str(h)
                if op == "store":
                    cmds.append("store %d %s" % (c, src))
                else:
                    h2 = g.handle(); cmds.append("swap %d %s %d" % (c, src, h2)); owned.append(h2)
            elif op == "cas":
                r = rng.random()
                if r < 0.15 or not (owned or guards):
                    cur = "-"
                else:
                    cur = str(rng.choice(owned + guards))
                if cur == "-" or rng.random() < 0.5:
                    # make success likely: load first and use that guard as current
                    hg = g.handle(); cmds.append("load %d %d" % (c, hg)); guards.append(hg); cur = str(hg)
                r = rng.random()
                cand = [h for h in owned if str(h) != cur]
                if r < 0.15:
                    new = "-"
                elif cand and r < 0.5:
                    hn = rng.choice(cand); owned.remove(hn); new = str(hn)
                else:
                    hn = g.handle(); cmds.append("new %d" % hn); new = str(hn)
                h2 = g.handle(); cmds.append("cas %d %s %s %d" % (c, cur, new, h2)); guards.append(h2)
            elif op == "rcu":
                h2 = g.handle()
                mode = rng.choice(["new", "new", "null", "same"])
                if family == "panic":
                    mode = rng.choice(["panic0", "panic0", "panic1", "panic2", "new"])
                cmds.append("rcu %d %s %d" % (c, mode, h2))
                if not mode.startswith("panic"):
                    owned.append(h2)
                else:
                    # the result exists only if the closure did not reach its panicking attempt
                    cmds.append("drop %d" % h2) if False else None
            elif op == "cachenew":
                k = g.handle(); cmds.append("cachenew %d %d" % (c, k)); caches.append(k)
            elif op == "cacheload" and caches:
                cmds.append("cacheload %d" % rng.choice(caches))
            elif op == "steal" and exported:
                h, kind = exported.pop(rng.randrange(len(exported)))
                cmds.append("drop %d" % h)
        # leave some handles for higher threads to drop (guards dropped on another thread,
        # possibly after this thread has exited)
        if family in ("mixed", "multi", "churn", "guards", "seqchurn") and t + 1 < nthreads:
            for h in list(guards):
                if rng.random() < 0.3:
                    guards.remove(h); hx = g.handle(); cmds.append("move %d %d" % (h, hx)); exported.append((hx, "g"))
        # drop the rest (quiescent end state) most of the time
        if rng.random() < 0.8:
            rest = [("g", h) for h in guards] + [("o", h) for h in owned] + [("c", h) for h in caches]
            rng.shuffle(rest)
            for _, h in rest:
                cmds.append("drop %d" % h)
        threads.append(cmds)
    # the last thread consumes whatever was exported and not stolen
    for h, _ in exported:
        threads[-1].append("drop %d" % h)
    if group:
        lines0 = ["# peak %d threads alive at a time" % group]
    else:
        lines0 = []
    lines = lines0 + ["config fast=%d debug=1" % fast, "init " + " ".join(str(a) for a in inits)]
    for t, cmds in enumerate(threads):
        lines.append("thread %d: %s" % (t, "; ".join(cmds)))
    return "\n".join(lines) + "\n"


FAMILIES = ["basic", "mixed", "guards", "nofast", "helping", "cas", "multi", "churn", "seqchurn", "cache", "wrap", "panic"]

if __name__ == "__main__":
    import sys
    fam = sys.argv[1] if len(sys.argv) > 1 else "mixed"
    seed = int(sys.argv[2]) if len(sys.argv) > 2 else 1
    print(gen_program(seed, fam), end="")
