#!/usr/bin/env python3
"""Translator: type definitions of /repo/src -> coq/Marker/Types_gen.v (+ JSON), for C19.

Usage: gen_types.py <out.v> <out.json>      (env VERIF_REPO, default /repo)

What is read off the source, on every check:
  * the module tree from src/lib.rs (`mod x;` / `mod x { .. }`), with `#[cfg(..)]` evaluated for
    the configuration  features = {weak, internal-test-strategies, serde},  test / miri /
    arc_swap_verif / docsrs = off  (so tests, src/verif.rs and the cfg(arc_swap_verif) accessors
    are not part of it);
  * every `struct` reachable from the public generic types (field types, PhantomData arguments,
    type parameters and their bounds), as terms of Marker/AutoTraits.v;
  * every `impl .. Send/Sync for ..` of the crate, wherever it stands (module level, inside a
    function body, inside a macro definition): rendered as an entry of the explicit-impl table
    (self pattern + Send/Sync bounds and where-clauses);
  * the associated-type resolutions the field types need: `type Protected = ..` of every
    `impl InnerStrategy<T> for ..`, `type Base = ..` of every `unsafe impl RefCnt for ..`;
  * the strategies (every InnerStrategy impl, its `Cfg: Config` parameter instantiated with every
    `impl Config for ..`), the public alias by which another crate can name each of them, and the
    pointer kinds (every RefCnt impl, `Option<T: RefCnt>` applied once to the others).

The translator REFUSES (exit 2, message on stderr) on anything it cannot render: an unknown
type constructor or path in a relevant field, a cfg it does not know, a Send/Sync impl it cannot
parse (negative impl, HRTB where-clause, impl produced by a macro), a public struct that is not in
EXPECTED_PUBLIC (a new wrapper needs a new line in the matrix and in the theorems), a reachable
enum/union.  A refusal is a broken correspondence for bin/check.
"""
import os, sys, json, hashlib

REPO = os.environ.get("VERIF_REPO", "/repo")
FEATURES_ON = {"weak", "internal-test-strategies", "serde"}
CFG_OFF = {"test", "miri", "arc_swap_verif", "docsrs", "doc", "loom"}

# The public structs the matrix (Marker/Matrix.v) knows.  Any other public struct in a public
# module is a refusal.
EXPECTED_PUBLIC = {
    "crate::ArcSwapAny", "crate::Guard",
    "crate::cache::Cache", "crate::cache::MapCache",
    "crate::access::Map", "crate::access::MapGuard", "crate::access::DynGuard",
    "crate::access::DirectDeref", "crate::access::AccessConvert",
    "crate::access::Constant", "crate::access::ConstantDeref",
    "crate::strategy::test_strategies::NoFastSlots",
}
ROOTS = sorted(EXPECTED_PUBLIC)


class Refuse(Exception):
    pass


def refuse(msg):
    raise Refuse(msg)


# --------------------------------------------------------------------------- tokenizer

class Tok:
    __slots__ = ("k", "t", "line", "col", "sub", "file")

    def __init__(self, k, t, line, col, sub=None):
        self.k, self.t, self.line, self.col, self.sub = k, t, line, col, sub
        self.file = None

    def is_id(self, s=None):
        return self.k == "id" and (s is None or self.t == s)

    def is_p(self, s):
        return self.k == "p" and self.t == s

    def is_g(self, d=None):
        return self.k == "g" and (d is None or self.t == d)

    def __repr__(self):
        return "%s@%d" % (self.t if self.k != "g" else self.t + "..", self.line)


OPEN = {"(": ")", "[": "]", "{": "}"}
CLOSE = {")", "]", "}"}


def tokenize(src, fname):
    toks = []
    i, n, line, bol = 0, len(src), 1, 0
    while i < n:
        c = src[i]
        if c == "\n":
            line += 1; i += 1; bol = i; continue
        if c.isspace():
            i += 1; continue
        if src.startswith("//", i):
            j = src.find("\n", i)
            i = n if j < 0 else j
            continue
        if src.startswith("/*", i):
            depth, j = 1, i + 2
            while j < n and depth:
                if src.startswith("/*", j): depth += 1; j += 2
                elif src.startswith("*/", j): depth -= 1; j += 2
                else:
                    if src[j] == "\n": line += 1; bol = j + 1
                    j += 1
            i = j
            continue
        col = i - bol
        # raw / byte strings
        if c in "rb":
            j = i
            if src.startswith("br", j): j += 2
            elif c == "r": j += 1
            elif c == "b": j += 1
            k = j
            while k < n and src[k] == "#": k += 1
            if k < n and src[k] == '"' and (src[i:j] in ("r", "br") or (src[i:j] == "b" and k == j)):
                hashes = k - j
                if src[i:j] == "b" and hashes == 0:
                    pass  # ordinary byte string, handled below by the '"' branch after skipping b
                else:
                    end = src.find('"' + "#" * hashes, k + 1)
                    if end < 0: refuse("%s:%d unterminated raw string" % (fname, line))
                    line += src.count("\n", i, end)
                    toks.append(Tok("lit", '""', line, col))
                    i = end + 1 + hashes
                    continue
            if c == "b" and i + 1 < n and src[i + 1] in "\"'":
                i += 1
                c = src[i]
        if c == '"':
            j = i + 1
            while j < n and src[j] != '"':
                if src[j] == "\n": line += 1; bol = j + 1
                j += 2 if src[j] == "\\" else 1
            toks.append(Tok("lit", src[i:j + 1], line, col))
            i = j + 1
            continue
        if c == "'":
            if i + 1 < n and src[i + 1] == "\\":
                j = src.find("'", i + 3)
                toks.append(Tok("lit", "'c'", line, col)); i = j + 1; continue
            if i + 2 < n and src[i + 2] == "'":
                toks.append(Tok("lit", "'c'", line, col)); i += 3; continue
            j = i + 1
            while j < n and (src[j].isalnum() or src[j] == "_"): j += 1
            toks.append(Tok("life", src[i:j], line, col)); i = j; continue
        if c.isalpha() or c == "_":
            j = i
            while j < n and (src[j].isalnum() or src[j] == "_"): j += 1
            toks.append(Tok("id", src[i:j], line, col)); i = j; continue
        if c.isdigit():
            j = i
            while j < n and (src[j].isalnum() or src[j] == "_" or
                             (src[j] == "." and j + 1 < n and src[j + 1].isdigit())): j += 1
            toks.append(Tok("lit", src[i:j], line, col)); i = j; continue
        for m in ("::", "->", "=>"):
            if src.startswith(m, i):
                toks.append(Tok("p", m, line, col)); i += len(m); break
        else:
            toks.append(Tok("p", c, line, col)); i += 1
    for t in toks:
        t.file = fname
    # token trees
    stack = [[]]
    opens = []
    for t in toks:
        if t.k == "p" and t.t in OPEN:
            g = Tok("g", t.t, t.line, t.col, [])
            g.file = fname
            stack[-1].append(g); stack.append(g.sub); opens.append(t)
        elif t.k == "p" and t.t in CLOSE:
            if not opens or OPEN[opens[-1].t] != t.t:
                refuse("%s:%d unbalanced delimiter %s" % (fname, t.line, t.t))
            opens.pop(); stack.pop()
        else:
            stack[-1].append(t)
    if opens:
        refuse("%s:%d unclosed delimiter" % (fname, opens[-1].line))
    return stack[0]


# --------------------------------------------------------------------------- cfg

def eval_cfg(toks, where):
    """toks: contents of cfg( .. )"""
    def pred(i):
        t = toks[i]
        if not t.is_id():
            refuse("%s: cannot read cfg predicate" % where)
        name = t.t
        if i + 1 < len(toks) and toks[i + 1].is_g("("):
            inner = toks[i + 1].sub
            vals, j = [], 0
            while j < len(inner):
                v, j = pred_inner(inner, j)
                vals.append(v)
                if j < len(inner):
                    if not inner[j].is_p(","): refuse("%s: cannot read cfg predicate" % where)
                    j += 1
            if name == "not":
                if len(vals) != 1: refuse("%s: cfg not() arity" % where)
                return (not vals[0]), i + 2
            if name == "all": return all(vals), i + 2
            if name == "any": return any(vals), i + 2
            refuse("%s: unknown cfg operator %s" % (where, name))
        if i + 2 < len(toks) and toks[i + 1].is_p("=") and toks[i + 2].k == "lit":
            val = toks[i + 2].t.strip('"')
            if name == "feature":
                return (val in FEATURES_ON), i + 3
            refuse("%s: unknown cfg key %s" % (where, name))
        if name in CFG_OFF:
            return False, i + 1
        refuse("%s: unknown cfg flag %s" % (where, name))

    def pred_inner(inner, j):
        nonlocal toks
        saved = toks
        toks = inner
        try:
            return pred(j)
        finally:
            toks = saved

    v, j = pred(0)
    if j != len(toks):
        refuse("%s: trailing tokens in cfg" % where)
    return v


ITEM_KW = {"mod", "fn", "struct", "enum", "union", "impl", "trait", "type", "use", "const", "static",
           "unsafe", "extern", "async", "macro_rules", "let", "pub"}
SEMI_KW = {"use", "type", "let"}


def strip_cfg(trees):
    """Removes every `#[cfg(false)]` item/statement and the `#[cfg(true)]` attributes, at every depth."""
    out = []
    i, n = 0, len(trees)
    while i < n:
        t = trees[i]
        if t.is_p("#") and i + 1 < n and trees[i + 1].is_g("[") and trees[i + 1].sub and \
                trees[i + 1].sub[0].is_id("cfg") and len(trees[i + 1].sub) == 2 and trees[i + 1].sub[1].is_g("("):
            where = "%s:%d" % (t.file, t.line)
            keep = eval_cfg(trees[i + 1].sub[1].sub, where)
            i += 2
            if keep:
                continue
            # skip further attributes, then the item
            while i + 1 < n and trees[i].is_p("#") and trees[i + 1].is_g("["):
                i += 2
            j = i
            while j < n and trees[j].is_id("pub"):
                j += 1
                if j < n and trees[j].is_g("("): j += 1
            if j >= n:
                refuse("%s: cfg attribute on nothing" % where)
            first = trees[j]
            is_macro = first.is_id() and j + 1 < n and trees[j + 1].is_p("!")
            if not (first.is_id() and (first.t in ITEM_KW or is_macro)):
                refuse("%s: #[cfg] on something that is not an item (%r): cannot decide what it removes" % (where, first))
            semi = first.t in SEMI_KW or (first.t in ("const", "static") and not
                                          (j + 1 < n and trees[j + 1].is_id() and trees[j + 1].t in ("fn", "unsafe", "async", "extern"))) \
                or (first.t == "extern" and j + 1 < n and trees[j + 1].is_id("crate"))
            k = j
            while k < n:
                if trees[k].is_p(";"):
                    k += 1; break
                if trees[k].is_g("{") and not semi:
                    k += 1; break
                k += 1
            i = k
            continue
        if t.k == "g":
            g = Tok("g", t.t, t.line, t.col, strip_cfg(t.sub))
            g.file = t.file
            out.append(g)
        else:
            out.append(t)
        i += 1
    return out


# --------------------------------------------------------------------------- modules and items

class Module:
    def __init__(self, path, file, public):
        self.path, self.file, self.public = path, file, public
        self.items = {}     # name -> dict(kind=struct|enum|alias|trait|mod, ...)
        self.imports = {}   # name -> (path tuple, is_pub)
        self.impls = []     # dict(unsafe, header toks, body group, line)


MODS = {}          # path tuple -> Module
SCANNED = []       # (file, stripped trees) for the global impl scan
HANDLED = set()    # (file, line, col) of impl tokens that the item walker has seen
SOURCES = {}


def skip_angles(toks, i):
    """toks[i] is '<': returns index after the matching '>'."""
    depth = 0
    while i < len(toks):
        if toks[i].is_p("<"): depth += 1
        elif toks[i].is_p(">"):
            depth -= 1
            if depth == 0: return i + 1
        i += 1
    refuse("%s:%d unbalanced <>" % (toks[0].file, toks[0].line))


def split_top(toks, sep):
    """split at `sep` punct tokens that are outside <>"""
    parts, cur, depth = [], [], 0
    for t in toks:
        if t.is_p("<"): depth += 1
        elif t.is_p(">"): depth -= 1
        if depth == 0 and t.is_p(sep):
            parts.append(cur); cur = []
        else:
            cur.append(t)
    parts.append(cur)
    return parts


def parse_use(toks, mod, is_pub):
    def go(prefix, ts):
        # ts: tokens of one use-tree
        segs, i = list(prefix), 0
        if ts and ts[0].is_p("::"):
            i = 1
        while i < len(ts):
            t = ts[i]
            if t.is_id() and t.t != "as":
                segs.append(t.t); i += 1
                if i < len(ts) and ts[i].is_p("::"):
                    i += 1; continue
                name = segs[-1]
                if i < len(ts) and ts[i].is_id("as"):
                    name = ts[i + 1].t; i += 2
                if i != len(ts): refuse("%s:%d cannot read use declaration" % (mod.file, t.line))
                if name == "self":
                    name = segs[-2]; segs = segs[:-1]
                if name != "_":
                    mod.imports[name] = (tuple(segs), is_pub)
                return
            if t.is_g("{"):
                for part in split_top(t.sub, ","):
                    if part: go(segs, part)
                return
            if t.is_p("*"):
                mod.imports.setdefault("*", []).append(tuple(segs))
                return
            refuse("%s:%d cannot read use declaration" % (mod.file, t.line))
    go([], toks)


def load_module(path, file, public):
    full = os.path.join(REPO, file)
    if not os.path.exists(full):
        refuse("module %s: file %s does not exist" % ("::".join(path), file))
    src = open(full, encoding="utf-8").read()
    SOURCES[file] = hashlib.sha1(src.encode()).hexdigest()
    trees = strip_cfg(tokenize(src, file))
    SCANNED.append((file, trees))
    mod = Module(path, file, public)
    MODS[path] = mod
    walk_items(trees, mod)
    return mod


def child_file(mod, name):
    d = os.path.dirname(mod.file)
    base = os.path.basename(mod.file)
    if base in ("lib.rs", "mod.rs"):
        cands = [os.path.join(d, name + ".rs"), os.path.join(d, name, "mod.rs")]
    else:
        cands = [os.path.join(d, base[:-3], name + ".rs"), os.path.join(d, base[:-3], name, "mod.rs")]
    for c in cands:
        if os.path.exists(os.path.join(REPO, c)):
            return c
    refuse("%s: cannot find the file of `mod %s`" % (mod.file, name))


def walk_items(trees, mod):
    i, n = 0, len(trees)

    def until(pred, i):
        while i < n and not pred(trees[i]): i += 1
        if i >= n: refuse("%s: item runs off the end of its block" % mod.file)
        return i

    while i < n:
        t = trees[i]
        if t.is_p(";"):
            i += 1; continue
        if t.is_p("#"):
            i += 1
            if i < n and trees[i].is_p("!"): i += 1
            if not (i < n and trees[i].is_g("[")): refuse("%s:%d stray #" % (mod.file, t.line))
            i += 1; continue
        is_pub = False
        if t.is_id("pub"):
            is_pub = True
            i += 1
            if i < n and trees[i].is_g("("):
                is_pub = False; i += 1
            t = trees[i]
        if not t.is_id():
            refuse("%s:%d unexpected token %r at item level" % (mod.file, t.line, t))
        kw = t.t
        line = t.line
        unsafe = False
        if kw == "unsafe":
            unsafe = True
            i += 1; t = trees[i]; kw = t.t
        if kw == "use":
            j = until(lambda x: x.is_p(";"), i)
            parse_use(trees[i + 1:j], mod, is_pub)
            i = j + 1
        elif kw == "mod":
            name = trees[i + 1].t
            if trees[i + 2].is_p(";"):
                sub = load_module(mod.path + (name,), child_file(mod, name), mod.public and is_pub)
                i += 3
            elif trees[i + 2].is_g("{"):
                sub = Module(mod.path + (name,), mod.file, mod.public and is_pub)
                MODS[sub.path] = sub
                walk_items(trees[i + 2].sub, sub)
                i += 3
            else:
                refuse("%s:%d cannot read mod item" % (mod.file, line))
            mod.items[name] = dict(kind="mod", pub=is_pub)
        elif kw == "struct":
            name = trees[i + 1].t
            j = i + 2
            gen = []
            if j < n and trees[j].is_p("<"):
                k = skip_angles(trees, j)
                gen = trees[j + 1:k - 1]; j = k
            k = j
            while k < n and not (trees[k].is_g("{") or trees[k].is_p(";")): k += 1
            if k >= n: refuse("%s:%d cannot read struct %s" % (mod.file, line, name))
            rest = trees[j:k]
            body, tuple_body, where = None, None, []
            if trees[k].is_g("{"):
                body = trees[k]
                where = rest
            else:
                if rest and rest[0].is_g("("):
                    tuple_body = rest[0]; where = rest[1:]
                elif rest:
                    where = rest
            if where and not where[0].is_id("where"):
                refuse("%s:%d cannot read struct %s header" % (mod.file, line, name))
            if name in mod.items: refuse("%s:%d duplicate item %s" % (mod.file, line, name))
            mod.items[name] = dict(kind="struct", pub=is_pub, gen=gen, body=body, tuple=tuple_body,
                                   where=where[1:] if where else [], line=line, mod=mod, name=name)
            i = k + 1
        elif kw in ("enum", "union") and trees[i + 1].is_id() and not trees[i + 1].is_p("!"):
            name = trees[i + 1].t
            k = until(lambda x: x.is_g("{"), i)
            mod.items[name] = dict(kind=kw, pub=is_pub, line=line, mod=mod, name=name)
            i = k + 1
        elif kw == "type":
            name = trees[i + 1].t
            j = i + 2
            gen = []
            if trees[j].is_p("<"):
                k = skip_angles(trees, j)
                gen = trees[j + 1:k - 1]; j = k
            if not trees[j].is_p("="): refuse("%s:%d cannot read type alias %s" % (mod.file, line, name))
            k = until(lambda x: x.is_p(";"), j)
            mod.items[name] = dict(kind="alias", pub=is_pub, gen=gen, rhs=trees[j + 1:k], line=line, mod=mod, name=name)
            i = k + 1
        elif kw == "impl":
            k = until(lambda x: x.is_g("{"), i)
            HANDLED.add((t.file, t.line, t.col))
            mod.impls.append(dict(unsafe=unsafe, header=trees[i + 1:k], body=trees[k], line=line, mod=mod))
            i = k + 1
        elif kw == "trait":
            name = trees[i + 1].t
            k = until(lambda x: x.is_g("{"), i)
            mod.items[name] = dict(kind="trait", pub=is_pub, header=trees[i + 2:k], line=line, mod=mod, name=name)
            i = k + 1
        elif kw == "macro_rules":
            k = until(lambda x: x.k == "g", i)
            i = k + 1
        elif kw in ("fn", "async") or (kw in ("const", "static") and trees[i + 1].is_id() and trees[i + 1].t in ("fn", "unsafe", "async", "extern")) \
                or (kw == "extern" and not trees[i + 1].is_id("crate") and not (trees[i + 1].k == "lit" and trees[i + 2].is_g("{"))):
            k = until(lambda x: x.is_g("{") or x.is_p(";"), i)
            i = k + 1
        elif kw in ("const", "static") or (kw == "extern" and trees[i + 1].is_id("crate")):
            k = until(lambda x: x.is_p(";"), i)
            i = k + 1
        elif kw == "extern":
            k = until(lambda x: x.is_g("{"), i)
            i = k + 1
        elif i + 1 < n and trees[i + 1].is_p("!"):
            # macro invocation in item position: ident ! (..) ; | ident ! {..}
            k = until(lambda x: x.k == "g", i)
            i = k + 1
        else:
            refuse("%s:%d unexpected item keyword %r" % (mod.file, line, kw))


def scan_auto_impls(trees, found):
    """Every `impl [<..>] [!] Path for` whose trait path ends in Send or Sync, at any depth."""
    n = len(trees)
    for i, t in enumerate(trees):
        if t.k == "g":
            scan_auto_impls(t.sub, found)
        if t.is_id("impl"):
            j = i + 1
            if j < n and trees[j].is_p("<"):
                j = skip_angles(trees, j)
            if j < n and trees[j].is_p("!"):
                j += 1
            depth, last = 0, None
            while j < n:
                x = trees[j]
                if x.is_p("<"): depth += 1
                elif x.is_p(">"): depth -= 1
                elif depth == 0 and x.is_id("for"):
                    if last in ("Send", "Sync"):
                        found.append(t)
                    break
                elif depth == 0 and (x.k == "g" and x.t == "{" or x.is_id("where") or
                                     (x.k == "p" and x.t in (",", ";", "=", "+", "|"))):
                    break
                elif depth < 0:
                    break
                elif depth == 0 and x.is_id():
                    last = x.t
                j += 1


# --------------------------------------------------------------------------- name resolution

STD_ROOTS = {"core", "alloc", "std"}
STD_TYPES = {
    ("sync", "Arc"): ("CArc", 1), ("rc", "Rc"): ("CRc", 1), ("sync", "Weak"): ("CSyncWeak", 1),
    ("rc", "Weak"): ("CRcWeak", 1), ("option", "Option"): ("COption", 1),
    ("marker", "PhantomData"): ("CPhantom", 1), ("sync", "atomic", "AtomicPtr"): ("CAtomicPtr", 1),
    ("sync", "atomic", "AtomicUsize"): ("CAtomicUsize", 0), ("mem", "ManuallyDrop"): ("CManuallyDrop", 1),
    ("cell", "Cell"): ("CCell", 1), ("cell", "UnsafeCell"): ("CUnsafeCell", 1), ("boxed", "Box"): ("CBox", 1),
    ("sync", "RwLock"): ("CRwLock", 1), ("sync", "Mutex"): ("CMutex", 1), ("sync", "MutexGuard"): ("CMutexGuard", 1),
}
PRELUDE_TYPES = {"Option": ("option", "Option"), "Box": ("boxed", "Box")}
PRELUDE_TRAITS = {"Send": ("marker", "Send"), "Sync": ("marker", "Sync"), "Sized": ("marker", "Sized"),
                  "Clone": ("clone", "Clone"), "Copy": ("marker", "Copy"), "Default": ("default", "Default"),
                  "Fn": ("ops", "Fn"), "FnMut": ("ops", "FnMut"), "FnOnce": ("ops", "FnOnce"),
                  "Drop": ("ops", "Drop"), "From": ("convert", "From"), "Into": ("convert", "Into"),
                  "Eq": ("cmp", "Eq"), "PartialEq": ("cmp", "PartialEq"), "Ord": ("cmp", "Ord"),
                  "PartialOrd": ("cmp", "PartialOrd"), "AsRef": ("convert", "AsRef"), "Unpin": ("marker", "Unpin")}
PRIMS = {"u8", "u16", "u32", "u64", "u128", "usize", "i8", "i16", "i32", "i64", "i128", "isize",
         "f32", "f64", "bool", "char", "str"}


def resolve(mod, segs, where, depth=0):
    """-> ('std', tuple) | ('crate', tuple, item) | ('prim', name) | None"""
    if depth > 12:
        refuse("%s: import cycle while resolving %s" % (where, "::".join(segs)))
    segs = list(segs)
    first = segs[0]
    if first in STD_ROOTS:
        return ("std", tuple(segs[1:]))
    if first == "crate":
        abs_ = segs[1:]
    elif first == "self":
        abs_ = list(mod.path) + segs[1:]
    elif first == "super":
        p = list(mod.path)
        while segs and segs[0] == "super":
            if not p: refuse("%s: super:: above the crate root" % where)
            p.pop(); segs.pop(0)
        abs_ = p + segs
    elif first in mod.items:
        abs_ = list(mod.path) + segs
    elif first in mod.imports:
        # a `use` path is relative to the module it stands in (crate::, self::, super::, an extern
        # crate, or a name in scope)
        return resolve(mod, list(mod.imports[first][0]) + segs[1:], where, depth + 1)
    elif len(segs) == 1 and first in PRELUDE_TYPES:
        return ("std", PRELUDE_TYPES[first])
    elif len(segs) == 1 and first in PRELUDE_TRAITS:
        return ("std", PRELUDE_TRAITS[first])
    elif len(segs) == 1 and first in PRIMS:
        return ("prim", first)
    else:
        return None
    # walk down the crate's module tree
    cur = ()
    for k, s in enumerate(abs_):
        m = MODS.get(cur)
        if m is None:
            return None
        last = k == len(abs_) - 1
        it = m.items.get(s)
        if it is not None:
            if it["kind"] == "mod":
                cur = cur + (s,)
                if last: return ("crate", cur, it)
                continue
            if last:
                return ("crate", cur + (s,), it)
            return None
        if s in m.imports:
            return resolve(m, list(m.imports[s][0]) + abs_[k + 1:], where, depth + 1)
        return None
    return ("crate", cur, dict(kind="mod"))


def cname(path):
    return "crate::" + "::".join(path)


# --------------------------------------------------------------------------- type parser
# python representation of Marker.AutoTraits.ty:
#   ("var", i) | ("app", con, [args]) | ("proj", name, [args])      con = "CArc" | ("CDyn", s, y) | ("CAdt", name)

TRAIT_STRATEGY = ("strategy", "Strategy")
TRAIT_INNER = ("strategy", "sealed", "InnerStrategy")
TRAIT_REFCNT = ("ref_cnt", "RefCnt")


class Ctx:
    """type parameters in scope: name -> index; bounds: name -> list of (resolved trait, arg token lists)"""
    def __init__(self, mod, params, bounds, where):
        self.mod, self.params, self.bounds, self.where = mod, params, bounds, where


class TypeParser:
    def __init__(self, toks, ctx):
        self.t, self.i, self.ctx = toks, 0, ctx

    def err(self, msg):
        line = self.t[min(self.i, len(self.t) - 1)].line if self.t else 0
        refuse("%s (line %d): %s" % (self.ctx.where, line, msg))

    def peek(self):
        return self.t[self.i] if self.i < len(self.t) else None

    def done(self):
        return self.i >= len(self.t)

    def parse_all(self):
        ty = self.parse_type()
        if not self.done():
            self.err("trailing tokens after a type: %r" % self.t[self.i:])
        return ty

    def parse_type(self):
        t = self.peek()
        if t is None:
            self.err("type expected")
        if t.is_p("&"):
            self.i += 1
            if self.peek() is not None and self.peek().k == "life": self.i += 1
            c = "CRef"
            if self.peek() is not None and self.peek().is_id("mut"):
                self.i += 1; c = "CRefMut"
            return ("app", c, [self.parse_type()])
        if t.is_p("*"):
            self.i += 1
            if not (self.peek() and self.peek().is_id() and self.peek().t in ("const", "mut")):
                self.err("raw pointer without const/mut")
            self.i += 1
            return ("app", "CRawPtr", [self.parse_type()])
        if t.is_g("("):
            self.i += 1
            parts = split_top(t.sub, ",")
            if len(parts) == 1 and not parts[0]:
                return ("app", "CUnit", [])
            trailing = not parts[-1]
            if trailing: parts = parts[:-1]
            tys = [TypeParser(p, self.ctx).parse_all() for p in parts]
            if len(tys) == 1 and not trailing:
                return tys[0]
            return ("app", "CTuple", tys)
        if t.is_g("["):
            self.i += 1
            parts = split_top(t.sub, ";")
            return ("app", "CArray", [TypeParser(parts[0], self.ctx).parse_all()])
        if t.is_id("unsafe") or t.is_id("extern") or t.is_id("fn"):
            while not self.peek().is_id("fn"):
                self.i += 1
                if self.done(): self.err("cannot read function pointer type")
            self.i += 1
            if not (self.peek() and self.peek().is_g("(")): self.err("cannot read function pointer type")
            self.i += 1
            if self.peek() is not None and self.peek().is_p("->"):
                self.i += 1
                self.parse_type()       # the signature does not matter for the auto traits
            return ("app", "CFnPtr", [])
        if t.is_id("dyn"):
            self.i += 1
            names = self.parse_bounds_names()
            return ("app", ("CDyn", "Send" in names, "Sync" in names), [])
        if t.is_id("impl") or t.is_p("<") or t.is_p("!") or t.is_id("_") or t.is_id("Self") or t.is_id("for"):
            self.err("type form `%s` is not supported" % t.t)
        if t.is_id() or t.is_p("::"):
            return self.parse_path_type()
        self.err("cannot read type at %r" % t)

    def parse_path(self):
        """-> list of (ident, [generic arg token lists] or None, paren sugar?)"""
        segs = []
        if self.peek().is_p("::"):
            self.i += 1
        while True:
            t = self.peek()
            if t is None or not t.is_id(): self.err("path segment expected")
            self.i += 1
            args = None
            nxt = self.peek()
            if nxt is not None and nxt.is_p("::") and self.i + 1 < len(self.t) and self.t[self.i + 1].is_p("<"):
                self.i += 1; nxt = self.peek()
            if nxt is not None and nxt.is_p("<"):
                j = skip_angles(self.t, self.i)
                args = split_top(self.t[self.i + 1:j - 1], ",")
                if args and not args[-1]: args = args[:-1]
                self.i = j
            segs.append((t.t, args))
            nxt = self.peek()
            if nxt is not None and nxt.is_p("::"):
                self.i += 1; continue
            return segs

    def parse_bounds_names(self):
        """bounds after `dyn`: returns the set of last identifiers of the trait paths"""
        names = set()
        while True:
            t = self.peek()
            if t is None: self.err("bound expected")
            if t.k == "life":
                self.i += 1
            elif t.is_p("?"):
                self.i += 2
            elif t.is_g("("):
                self.err("parenthesised bound")
            elif t.is_id("for"):
                self.err("higher-ranked bound in a field type")
            else:
                segs = self.parse_path()
                r = resolve(self.ctx.mod, [s for s, _ in segs], self.ctx.where)
                last = segs[-1][0]
                if last in ("Send", "Sync"):
                    if r != ("std", ("marker", last)):
                        self.err("a trait called %s that is not core::marker::%s" % (last, last))
                names.add(last)
                if self.peek() is not None and self.peek().is_g("("):   # Fn(A) -> B sugar
                    self.i += 1
                    if self.peek() is not None and self.peek().is_p("->"):
                        self.i += 1; self.parse_type()
            if self.peek() is not None and self.peek().is_p("+"):
                self.i += 1; continue
            return names

    def generic_args(self, args):
        out = []
        for a in args or []:
            if not a: self.err("empty generic argument")
            if a[0].k == "life":
                continue
            if a[0].k == "lit" or a[0].is_g("{"):
                self.err("const generic argument")
            if len(a) >= 2 and a[0].is_id() and a[1].is_p("="):
                self.err("associated type binding in a field type")
            out.append(TypeParser(a, self.ctx).parse_all())
        return out

    def parse_path_type(self):
        segs = self.parse_path()
        names = [s for s, _ in segs]
        ctx = self.ctx
        if names[0] in ctx.params:
            v = ("var", ctx.params[names[0]])
            if len(segs) == 1:
                if segs[0][1] is not None: self.err("type parameter with arguments")
                return v
            if len(segs) == 2 and segs[1][1] is None:
                return self.projection(names[0], v, names[1])
            self.err("cannot read path %s" % "::".join(names))
        for s, a in segs[:-1]:
            if a is not None: self.err("generic arguments in the middle of a path")
        r = resolve(ctx.mod, names, ctx.where)
        if r is None:
            self.err("unknown type `%s`" % "::".join(names))
        args = self.generic_args(segs[-1][1])
        if r[0] == "prim":
            if args: self.err("primitive with arguments")
            return ("app", "CPrim", [])
        if r[0] == "std":
            if r[1] not in STD_TYPES:
                self.err("standard-library type `%s` has no rule in Marker/AutoTraits.v" % "::".join(r[1]))
            con, ar = STD_TYPES[r[1]]
            if len(args) != ar:
                self.err("`%s` with %d type arguments (expected %d)" % (names[-1], len(args), ar))
            return ("app", con, args)
        _, path, it = r
        if it["kind"] == "struct":
            return ("app", ("CAdt", cname(path)), args)
        if it["kind"] == "alias":
            params, _ = parse_generics(it["gen"], it["mod"], "%s:%d alias %s" % (it["mod"].file, it["line"], it["name"]))
            actx = Ctx(it["mod"], {p: k for k, p in enumerate(params)}, {}, "%s:%d alias %s" % (it["mod"].file, it["line"], it["name"]))
            rhs = TypeParser(it["rhs"], actx).parse_all()
            if len(args) > len(params): self.err("too many arguments for alias %s" % names[-1])
            if len(args) < len(params): self.err("alias %s used with defaulted parameters" % names[-1])
            return subst(rhs, args)
        self.err("`%s` is a %s of the crate: only structs are modelled" % ("::".join(names), it["kind"]))

    def projection(self, pname, v, assoc):
        ctx = self.ctx
        bs = ctx.bounds.get(pname, [])
        if assoc == "Base":
            if not any(b[0] == ("crate", TRAIT_REFCNT) for b in bs):
                self.err("`%s::Base` but `%s` is not bound by RefCnt" % (pname, pname))
            return ("proj", "Base", [v])
        if assoc == "Protected":
            for b in bs:
                if b[0] in (("crate", TRAIT_STRATEGY), ("crate", TRAIT_INNER)):
                    if len(b[1] or []) != 1: self.err("Strategy bound without its argument")
                    arg = TypeParser(b[1][0], ctx).parse_all()
                    return ("proj", "Protected", [v, arg])
            self.err("`%s::Protected` but `%s` is not bound by Strategy<_>" % (pname, pname))
        self.err("associated type `%s::%s` has no resolution rule" % (pname, assoc))


def subst(t, args):
    if t[0] == "var":
        return args[t[1]]
    return (t[0], t[1], [subst(a, args) for a in t[2]])


def parse_bounds(toks, mod, where):
    """`A + B<X> + ?Sized + 'a` -> list of (resolved trait or None, generic arg token lists, last ident)"""
    out = []
    for part in split_top(toks, "+"):
        if not part: continue
        if part[0].k == "life": continue
        if part[0].is_p("?"): continue
        if part[0].is_id("for"):
            out.append((("hrtb",), None, "for")); continue
        if part[0].is_g("("):
            out.append((("paren",), None, "(")); continue
        tp = TypeParser(part, Ctx(mod, {}, {}, where))
        segs = tp.parse_path()
        r = resolve(mod, [s for s, _ in segs], where)
        key = None
        if r is not None and r[0] == "std": key = ("std", r[1])
        elif r is not None and r[0] == "crate": key = ("crate", r[1])
        out.append((key, segs[-1][1], segs[-1][0]))
    return out


def parse_generics(toks, mod, where):
    """-> (type parameter names in order, bounds: name -> [bound])"""
    params, bounds = [], {}
    for part in split_top(toks, ","):
        if not part: continue
        if part[0].k == "life": continue
        if part[0].is_id("const"):
            refuse("%s: const generic parameter" % where)
        name = part[0].t
        params.append(name)
        rest = part[1:]
        # cut a default `= Type`
        depth = 0
        for k, x in enumerate(rest):
            if x.is_p("<"): depth += 1
            elif x.is_p(">"): depth -= 1
            elif depth == 0 and x.is_p("="):
                rest = rest[:k]; break
        if rest:
            if not rest[0].is_p(":"): refuse("%s: cannot read generic parameter %s" % (where, name))
            bounds.setdefault(name, []).extend(parse_bounds(rest[1:], mod, where))
    return params, bounds


def parse_where(toks, mod, where):
    """-> list of (lhs token list, [bound])"""
    out = []
    for part in split_top(toks, ","):
        if not part: continue
        if part[0].k == "life": continue
        if part[0].is_id("for"):
            out.append((None, [(("hrtb",), None, "for")])); continue
        depth, k = 0, None
        for j, x in enumerate(part):
            if x.is_p("<"): depth += 1
            elif x.is_p(">"): depth -= 1
            elif depth == 0 and x.is_p(":"):
                k = j; break
        if k is None: refuse("%s: cannot read where-clause" % where)
        out.append((part[:k], parse_bounds(part[k + 1:], mod, where)))
    return out


# --------------------------------------------------------------------------- structs

def struct_def(it):
    mod = it["mod"]
    where = "%s:%d struct %s" % (mod.file, it["line"], it["name"])
    params, bounds = parse_generics(it["gen"], mod, where)
    for lhs, bs in parse_where(it["where"], mod, where):
        if lhs is not None and len(lhs) == 1 and lhs[0].is_id() and lhs[0].t in params:
            bounds.setdefault(lhs[0].t, []).extend(bs)
    ctx = Ctx(mod, {p: k for k, p in enumerate(params)}, bounds, where)
    fields = []
    if it["body"] is not None:
        for part in split_top(it["body"].sub, ","):
            part = strip_attrs_vis(part)
            if not part: continue
            if not (part[0].is_id() and len(part) > 2 and part[1].is_p(":")):
                refuse("%s: cannot read field %r" % (where, part))
            fields.append((part[0].t, TypeParser(part[2:], ctx).parse_all()))
    elif it["tuple"] is not None:
        for k, part in enumerate(split_top(it["tuple"].sub, ",")):
            part = strip_attrs_vis(part)
            if not part: continue
            fields.append((str(k), TypeParser(part, ctx).parse_all()))
    return dict(params=params, fields=fields, where=where)


def strip_attrs_vis(part):
    i = 0
    while i < len(part):
        if part[i].is_p("#") and i + 1 < len(part) and part[i + 1].is_g("["):
            i += 2
        elif part[i].is_id("pub"):
            i += 1
            if i < len(part) and part[i].is_g("("): i += 1
        else:
            break
    return part[i:]


def adts_of(t, acc):
    if t[0] == "var": return
    if t[0] == "app" and isinstance(t[1], tuple) and t[1][0] == "CAdt":
        acc.add(t[1][1])
    for a in t[2]: adts_of(a, acc)


# --------------------------------------------------------------------------- impls

def split_impl_header(imp):
    h = imp["header"]
    mod = imp["mod"]
    where = "%s:%d impl" % (mod.file, imp["line"])
    i = 0
    gen = []
    if h and h[0].is_p("<"):
        k = skip_angles(h, 0)
        gen = h[1:k - 1]; i = k
    neg = False
    if i < len(h) and h[i].is_p("!"):
        neg = True; i += 1
    depth, kfor, kwhere = 0, None, None
    for j in range(i, len(h)):
        x = h[j]
        if x.is_p("<"): depth += 1
        elif x.is_p(">"): depth -= 1
        elif depth == 0 and x.is_id("for") and kfor is None and kwhere is None:
            kfor = j
        elif depth == 0 and x.is_id("where") and kwhere is None:
            kwhere = j
    end = kwhere if kwhere is not None else len(h)
    if kfor is None:
        return dict(gen=gen, trait=None, self=h[i:end], where=h[end + 1:], neg=neg, loc=where)
    return dict(gen=gen, trait=h[i:kfor], self=h[kfor + 1:end], where=h[end + 1:], neg=neg, loc=where)


def trait_of(hd, mod):
    """-> (key, last ident, generic arg token lists)"""
    tp = TypeParser(hd["trait"], Ctx(mod, {}, {}, hd["loc"]))
    segs = tp.parse_path()
    if not tp.done():
        refuse("%s: cannot read the trait of the impl" % hd["loc"])
    r = resolve(mod, [s for s, _ in segs], hd["loc"])
    key = None
    if r is not None and r[0] in ("std", "crate"): key = (r[0], r[1])
    return key, segs[-1][0], segs[-1][1]


def assoc_type(imp, name):
    body = imp["body"].sub
    for i, t in enumerate(body):
        if t.is_id("type") and i + 2 < len(body) and body[i + 1].is_id(name) and body[i + 2].is_p("="):
            j = i + 3
            while j < len(body) and not body[j].is_p(";"): j += 1
            return body[i + 3:j]
    refuse("%s:%d impl without `type %s`" % (imp["mod"].file, imp["line"], name))


def auto_conds(params, bounds, wheres, ctx, loc):
    conds, notes = [], []
    def add(ty, bs):
        for key, _, last in bs:
            if key == ("std", ("marker", "Send")): conds.append(("Send", ty))
            elif key == ("std", ("marker", "Sync")): conds.append(("Sync", ty))
            elif key in (("hrtb",), ("paren",)):
                refuse("%s: higher-ranked or parenthesised bound on a Send/Sync impl" % loc)
            elif last in ("Send", "Sync"):
                refuse("%s: bound `%s` that is not core::marker::%s" % (loc, last, last))
            else:
                notes.append(last)
    for p in params:
        add(("var", ctx.params[p]), bounds.get(p, []))
    for lhs, bs in wheres:
        if lhs is None:
            refuse("%s: higher-ranked where-clause on a Send/Sync impl" % loc)
        add(TypeParser(lhs, ctx).parse_all(), bs)
    return conds, sorted(set(notes))


# --------------------------------------------------------------------------- rendering

def coq_string(s):
    return '"' + s.replace('"', '""') + '"'


def coq_ty(t):
    if t[0] == "var":
        return "TVar %d%%N" % t[1]
    args = "[" + "; ".join(coq_ty(a) for a in t[2]) + "]"
    if t[0] == "proj":
        return "TProj %s %s" % (coq_string(t[1]), args)
    c = t[1]
    if isinstance(c, tuple):
        if c[0] == "CDyn":
            c = "(CDyn %s %s)" % ("true" if c[1] else "false", "true" if c[2] else "false")
        else:
            c = "(CAdt %s)" % coq_string(c[1])
    return "TApp %s %s" % (c, args)


def show_ty(t, names=None):
    """short human-readable form (also the display names of strategies and pointer kinds)"""
    if t[0] == "var":
        return (names or {}).get(t[1], "_%d" % t[1])
    if t[0] == "proj":
        return "<%s>::%s" % (", ".join(show_ty(a, names) for a in t[2]), t[1])
    c = t[1]
    a = [show_ty(x, names) for x in t[2]]
    if isinstance(c, tuple):
        if c[0] == "CDyn":
            return "dyn _" + (" + Send" if c[1] else "") + (" + Sync" if c[2] else "")
        n = c[1].split("::")[-1]
        return n + ("<%s>" % ", ".join(a) if a else "")
    short = {"CArc": "Arc", "CRc": "Rc", "CSyncWeak": "sync::Weak", "CRcWeak": "rc::Weak", "COption": "Option",
             "CPhantom": "PhantomData", "CAtomicPtr": "AtomicPtr", "CAtomicUsize": "AtomicUsize",
             "CManuallyDrop": "ManuallyDrop", "CCell": "Cell", "CUnsafeCell": "UnsafeCell", "CBox": "Box",
             "CRwLock": "RwLock", "CMutex": "Mutex", "CMutexGuard": "MutexGuard", "CPrim": "prim"}
    if c == "CRef": return "&" + a[0]
    if c == "CRefMut": return "&mut " + a[0]
    if c == "CRawPtr": return "*const " + a[0]
    if c == "CUnit": return "()"
    if c == "CTuple": return "(" + ", ".join(a) + ")"
    if c == "CArray": return "[" + a[0] + "]"
    if c == "CFnPtr": return "fn(..)"
    return short[c] + ("<%s>" % ", ".join(a) if a else "")


def public_path(path, it):
    """the path by which another crate names the struct, or '' """
    if not it.get("pub"):
        return ""
    m = ()
    for s in path[:-1]:
        m = m + (s,)
        if not MODS[m].public:
            break
    else:
        return "::arc_swap::" + "::".join(path)
    # re-exported from a public module?
    best = ""
    for mp, mod in sorted(MODS.items()):
        if not mod.public: continue
        for name, (target, is_pub) in sorted((k, v) for k, v in mod.imports.items() if k != "*"):
            if not is_pub: continue
            r = resolve(mod, list(target), "re-export")
            if r is not None and r[0] == "crate" and r[1] == path:
                cand = "::arc_swap::" + "::".join(mp + (name,))
                if not best or len(cand) < len(best): best = cand
    return best


def main():
    out_v = sys.argv[1] if len(sys.argv) > 1 else None
    out_json = sys.argv[2] if len(sys.argv) > 2 else None
    root = load_module((), "src/lib.rs", True)

    # ---- every Send/Sync impl in the compiled source must have been seen as an item
    found = []
    for f, trees in SCANNED:
        scan_auto_impls(trees, found)
    for t in found:
        if (t.file, t.line, t.col) not in HANDLED:
            refuse("%s:%d a Send/Sync impl in a position the translator does not model (function body or macro): cannot render" % (t.file, t.line))

    # ---- Strategy<T> must be the sealed InnerStrategy<T> (the field `S::Protected` relies on it)
    st = resolve(root, ["crate", "strategy", "Strategy"], "Strategy")
    if st is None or st[2]["kind"] != "trait":
        refuse("trait crate::strategy::Strategy not found")
    hdr = st[2]["header"]
    txt = " ".join(x.t for x in hdr if x.k != "g")
    if "InnerStrategy < T >" not in txt:
        refuse("%s:%d trait Strategy<T> is no longer declared as a sub-trait of sealed::InnerStrategy<T>" % (st[2]["mod"].file, st[2]["line"]))

    # ---- impls
    explicit, rules, refcnt_impls, strat_impls, config_impls = [], [], [], [], []
    for mp in sorted(MODS):
        mod = MODS[mp]
        for imp in mod.impls:
            hd = split_impl_header(imp)
            if hd["trait"] is None:
                continue
            # quick look at the last identifier of the trait path
            depth, last = 0, None
            for x in hd["trait"]:
                if x.is_p("<"): depth += 1
                elif x.is_p(">"): depth -= 1
                elif depth == 0 and x.is_id(): last = x.t
            if last not in ("Send", "Sync", "RefCnt", "InnerStrategy", "Config"):
                continue
            key, last, targs = trait_of(hd, mod)
            loc = hd["loc"]
            params, bounds = parse_generics(hd["gen"], mod, loc)
            ctx = Ctx(mod, {p: k for k, p in enumerate(params)}, bounds, loc)
            wheres = parse_where(hd["where"], mod, loc)
            for lhs, bs in wheres:
                if lhs is not None and len(lhs) == 1 and lhs[0].is_id() and lhs[0].t in ctx.params:
                    bounds.setdefault(lhs[0].t, []).extend(bs)
            if last in ("Send", "Sync"):
                if key != ("std", ("marker", last)):
                    refuse("%s: impl of a trait called %s that is not core::marker::%s" % (loc, last, last))
                if hd["neg"]:
                    refuse("%s: negative impl `!%s`: not modelled" % (loc, last))
                self_ty = TypeParser(hd["self"], ctx).parse_all()
                if not (self_ty[0] == "app" and isinstance(self_ty[1], tuple) and self_ty[1][0] == "CAdt"):
                    refuse("%s: %s impl for something that is not a struct of the crate" % (loc, last))
                # the bounds written on parameters are conditions; where-clauses on parameters were
                # merged into `bounds` above, the others are kept as they are
                other = [(lhs, bs) for lhs, bs in wheres
                         if not (lhs is not None and len(lhs) == 1 and lhs[0].is_id() and lhs[0].t in ctx.params)]
                conds, notes = auto_conds(params, bounds, other, ctx, loc)
                explicit.append(dict(trait=last, adt=self_ty[1][1], self=self_ty, conds=conds,
                                     src="%s:%d" % (mod.file, imp["line"]), file=mod.file,
                                     other_bounds=notes, unsafe=imp["unsafe"]))
            elif last == "RefCnt":
                if key != ("crate", TRAIT_REFCNT): refuse("%s: a trait called RefCnt that is not crate::ref_cnt::RefCnt" % loc)
                self_ty = TypeParser(hd["self"], ctx).parse_all()
                rhs = TypeParser(assoc_type(imp, "Base"), ctx).parse_all()
                rules.append(dict(name="Base", pats=[self_ty], rhs=rhs, src="%s:%d" % (mod.file, imp["line"]), file=mod.file))
                rec = [p for p in params if any(b[0] == ("crate", TRAIT_REFCNT) for b in bounds.get(p, []))]
                refcnt_impls.append(dict(self=self_ty, params=params, rec=rec, loc=loc))
            elif last == "InnerStrategy":
                if key != ("crate", TRAIT_INNER): refuse("%s: a trait called InnerStrategy that is not the sealed one" % loc)
                if len(targs or []) != 1: refuse("%s: InnerStrategy without its argument" % loc)
                arg = TypeParser(targs[0], ctx).parse_all()
                self_ty = TypeParser(hd["self"], ctx).parse_all()
                rhs = TypeParser(assoc_type(imp, "Protected"), ctx).parse_all()
                rules.append(dict(name="Protected", pats=[self_ty, arg], rhs=rhs, src="%s:%d" % (mod.file, imp["line"]), file=mod.file))
                strat_impls.append(dict(self=self_ty, arg=arg, params=params, bounds=bounds, loc=loc, mod=mod))
            elif last == "Config":
                if key is None or key[0] != "crate": refuse("%s: cannot resolve trait Config" % loc)
                if params: refuse("%s: generic impl of Config" % loc)
                config_impls.append(dict(key=key, self=TypeParser(hd["self"], ctx).parse_all(), loc=loc))

    # ---- strategies: every InnerStrategy impl, Config parameters instantiated
    strategies = []
    for si in strat_impls:
        used = set()
        def vars_of(t):
            if t[0] == "var": used.add(t[1]); return
            for a in t[2]: vars_of(a)
        vars_of(si["self"])
        idx_to_name = {k: p for k, p in enumerate(si["params"])}
        choices = [[]]
        sub = {}
        free = sorted(used)
        insts = [dict()]
        for v in free:
            p = idx_to_name[v]
            bs = [b for b in si["bounds"].get(p, []) if b[0] is not None and b[0][0] == "crate"]
            cfgs = [c for c in config_impls if any(b[0] == c["key"] for b in bs)]
            if not cfgs:
                refuse("%s: strategy parameter `%s` is not bound by a trait with known impls: cannot enumerate the strategies" % (si["loc"], p))
            insts = [dict(list(i.items()) + [(v, c["self"])]) for i in insts for c in cfgs]
        for inst in insts:
            args = [inst.get(k, ("var", k)) for k in range(len(si["params"]))]
            strategies.append(subst(si["self"], args))
    strategies = sorted(strategies, key=lambda t: show_ty(t))

    # ---- pointer kinds: every RefCnt impl; a parameter bound by RefCnt is instantiated with the others
    base_kinds, rec_kinds = [], []
    for ri in refcnt_impls:
        if len(ri["params"]) != 1:
            refuse("%s: RefCnt impl with %d type parameters" % (ri["loc"], len(ri["params"])))
        (rec_kinds if ri["rec"] else base_kinds).append(ri["self"])
    kinds = list(base_kinds)
    for rk in rec_kinds:
        for bk in base_kinds:
            kinds.append(subst(rk, [bk]))
    kinds = sorted(kinds, key=lambda t: show_ty(t, {0: "X"}))

    # ---- public structs = the expected wrappers
    publics = {}
    for mp in sorted(MODS):
        mod = MODS[mp]
        if mp and mp[0] == "docs": continue
        for name, it in sorted(mod.items.items()):
            if it["kind"] in ("struct", "enum", "union"):
                pp = public_path(mp + (name,), it)
                it["rust"] = pp
                if pp:
                    publics[cname(mp + (name,))] = it
    extra = sorted(set(publics) - EXPECTED_PUBLIC)
    missing = sorted(EXPECTED_PUBLIC - set(publics))
    if extra:
        refuse("public type(s) %s are not in the matrix of Marker/Matrix.v (new wrapper: extend EXPECTED_PUBLIC, Matrix.v and the theorems)" % ", ".join(extra))
    if missing:
        refuse("expected public struct(s) %s not found (renamed, removed or no longer public)" % ", ".join(missing))

    # ---- closure of the struct definitions
    todo = set(ROOTS)
    for r in rules:
        adts_of(r["rhs"], todo)
        for p in r["pats"]: adts_of(p, todo)
    for s in strategies: adts_of(s, todo)
    for e in explicit: todo.add(e["adt"])
    structs = {}
    while todo:
        n = sorted(todo)[0]
        todo.discard(n)
        if n in structs: continue
        r = resolve(root, n.split("::"), n)
        if r is None or r[0] != "crate":
            refuse("cannot find the definition of %s" % n)
        it = r[2]
        if it["kind"] != "struct":
            refuse("%s is a %s: only structs are modelled" % (n, it["kind"]))
        sd = struct_def(it)
        sd["name"] = n
        sd["rust"] = it.get("rust") if it.get("rust") is not None else public_path(r[1], it)
        sd["src"] = it["mod"].file
        sd["line"] = it["line"]
        structs[n] = sd
        acc = set()
        for _, ft in sd["fields"]: adts_of(ft, acc)
        todo |= (acc - set(structs))

    # ---- how another crate names each strategy
    def nameable(t):
        if t[0] == "var": return True
        if t[0] == "proj": return False
        if isinstance(t[1], tuple) and t[1][0] == "CAdt":
            if not structs[t[1][1]]["rust"]: return False
        return all(nameable(a) for a in t[2])
    aliases = []
    for s in strategies:
        if nameable(s):
            continue
        best = None
        for mp in sorted(MODS):
            mod = MODS[mp]
            if not mod.public: continue
            for name, it in sorted(mod.items.items()):
                if it["kind"] == "alias" and it["pub"] and not it["gen"]:
                    try:
                        rhs = TypeParser(it["rhs"], Ctx(mod, {}, {}, "alias %s" % name)).parse_all()
                    except Refuse:
                        continue
                    if rhs == s:
                        cand = "::arc_swap::" + "::".join(mp + (name,))
                        if best is None or (len(cand), cand) < (len(best), best): best = cand
        if best is None:
            refuse("strategy %s cannot be named from another crate (no public alias): cannot validate it against rustc" % show_ty(s))
        aliases.append((s, best))

    names = {0: "X"}
    data = {
        "repo": REPO,
        "features": sorted(FEATURES_ON),
        "sources": SOURCES,
        "structs": [dict(name=n, params=sd["params"], fields=[(fn, show_ty(ft, dict(enumerate(sd["params"])))) for fn, ft in sd["fields"]],
                         rust=sd["rust"], src="%s:%d" % (sd["src"], sd["line"])) for n, sd in sorted(structs.items())],
        "explicit_impls": [dict(trait=e["trait"], adt=e["adt"], self=show_ty(e["self"]), conds=[(c, show_ty(t)) for c, t in e["conds"]],
                                src=e["src"], other_bounds=e["other_bounds"]) for e in explicit],
        "rules": [dict(name=r["name"], pats=[show_ty(p) for p in r["pats"]], rhs=show_ty(r["rhs"]), src=r["src"]) for r in rules],
        "strategies": [dict(name=show_ty(s), rust=dict((show_ty(a), b) for a, b in aliases).get(show_ty(s), "")) for s in strategies],
        "pointer_kinds": [show_ty(k, names) for k in kinds],
    }
    if out_json:
        os.makedirs(os.path.dirname(os.path.abspath(out_json)), exist_ok=True)
        json.dump(data, open(out_json, "w"), indent=1)

    L = []
    L.append("(* GENERATED by tools/gen_types.py from /repo/src — do not edit.")
    L.append("   features on: %s; test, miri, arc_swap_verif off. *)" % ", ".join(sorted(FEATURES_ON)))
    L.append("From Coq Require Import List NArith String.")
    L.append("From Marker Require Import AutoTraits.")
    L.append("Import ListNotations.")
    L.append("Open Scope string_scope.")
    L.append("")
    L.append("Definition crate_structs : list struct_def := [")
    ents = []
    for n, sd in sorted(structs.items()):
        pn = dict(enumerate(sd["params"]))
        com = "(* %s  struct %s%s { %s } *)" % (sd["src"], n.split("::")[-1], ("<%s>" % ", ".join(sd["params"])) if sd["params"] else "",
                                               "; ".join("%s: %s" % (fn, show_ty(ft, pn)) for fn, ft in sd["fields"]))
        ents.append("  %s\n  {| sd_name := %s; sd_arity := %d;\n     sd_fields := [%s];\n     sd_rust := %s; sd_src := %s |}" % (
            com, coq_string(n), len(sd["params"]), ";\n                   ".join(coq_ty(ft) for _, ft in sd["fields"]),
            coq_string(sd["rust"]), coq_string(sd["src"])))
    L.append(";\n".join(ents))
    L.append("].")
    L.append("")
    L.append("(* every `impl .. Send/Sync for ..` of the crate *)")
    L.append("Definition crate_impls : list explicit_impl := [")
    ents = []
    for e in explicit:
        ents.append("  (* %s  %simpl %s for %s%s *)\n  {| ei_trait := %s; ei_adt := %s;\n     ei_self := %s;\n     ei_conds := [%s];\n     ei_src := %s |}" % (
            e["file"], "unsafe " if e["unsafe"] else "", e["trait"], show_ty(e["self"]),
            (" where " + ", ".join("%s: %s" % (show_ty(t), c) for c, t in e["conds"])) if e["conds"] else "",
            e["trait"], coq_string(e["adt"]), coq_ty(e["self"]),
            "; ".join("(%s, %s)" % (c, coq_ty(t)) for c, t in e["conds"]), coq_string(e["file"])))
    L.append(";\n".join(ents))
    L.append("].")
    L.append("")
    L.append("(* associated-type resolutions: `type Protected` of the InnerStrategy impls, `type Base` of the RefCnt impls *)")
    L.append("Definition crate_rules : list proj_rule := [")
    ents = []
    for r in rules:
        ents.append("  (* %s  <%s>::%s = %s *)\n  {| pr_name := %s; pr_pats := [%s];\n     pr_rhs := %s; pr_src := %s |}" % (
            r["file"], ", ".join(show_ty(p) for p in r["pats"]), r["name"], show_ty(r["rhs"]),
            coq_string(r["name"]), "; ".join(coq_ty(p) for p in r["pats"]), coq_ty(r["rhs"]), coq_string(r["file"])))
    L.append(";\n".join(ents))
    L.append("].")
    L.append("")
    L.append("Definition crate_defs : defs :=")
    L.append("  {| d_structs := crate_structs; d_impls := crate_impls; d_rules := crate_rules |}.")
    L.append("")
    L.append("(* every `impl InnerStrategy<T> for ..`, its Config parameter instantiated with every `impl Config for ..` *)")
    L.append("Definition strategies : list (string * ty) := [")
    L.append(";\n".join("  (%s, %s)" % (coq_string(show_ty(s)), coq_ty(s)) for s in strategies))
    L.append("].")
    L.append("")
    L.append("(* the public alias by which another crate names a strategy whose own path is private *)")
    L.append("Definition strategy_alias : list (ty * string) := [")
    L.append(";\n".join("  (%s, %s)" % (coq_ty(s), coq_string(a)) for s, a in aliases))
    L.append("].")
    L.append("")
    L.append("(* every `unsafe impl RefCnt for ..` over the pointee TVar 0; `Option<T: RefCnt>` applied once to the others *)")
    L.append("Definition pointer_kinds : list (string * ty) := [")
    L.append(";\n".join("  (%s, %s)" % (coq_string(show_ty(k, names)), coq_ty(k)) for k in kinds))
    L.append("].")
    new = "\n".join(L) + "\n"
    if out_v:
        os.makedirs(os.path.dirname(os.path.abspath(out_v)), exist_ok=True)
        old = open(out_v).read() if os.path.exists(out_v) else None
        if old != new:
            open(out_v, "w").write(new)
    print("gen_types: %d structs, %d explicit Send/Sync impls, %d associated-type rules, %d strategies, %d pointer kinds" % (
        len(structs), len(explicit), len(rules), len(strategies), len(kinds)))


if __name__ == "__main__":
    try:
        main()
    except Refuse as e:
        print("gen_types: REFUSED: %s" % e, file=sys.stderr)
        sys.exit(2)
    except (IndexError, KeyError, AttributeError, TypeError) as e:
        import traceback
        print("gen_types: REFUSED: the source has a shape the translator cannot read (%s: %s) at %s" % (
            type(e).__name__, e, traceback.format_exc().strip().splitlines()[-3].strip()), file=sys.stderr)
        sys.exit(2)
