"""Per-property configuration of bin/check: which Coq files carry the theorems, which
audit file pins their statements, which runner ties the model to /repo and which oracle
findings count for the property."""

CONC_ALL = ["basic", "mixed", "guards", "nofast", "helping", "cas", "multi", "churn", "wrap"]

PROPS = {
    "C01": dict(props="Props/C01.v", runner="conc",
                families=["mixed", "guards", "nofast", "helping", "multi", "churn"],
                scenarios=["s01", "s02", "s03", "s04", "s05", "s06", "s07", "s10", "s13", "s14"], deep=["s03"], prot_check=True, stale=True),
    "C02": dict(props="Props/C02.v", runner="conc",
                families=["basic", "mixed", "guards", "helping", "cas", "multi"],
                scenarios=["s01", "s02", "s03", "s04", "s07", "s08", "s09", "s11", "s13", "s14", "s16"], acc_check=True),
    "C03": dict(props="Props/C03.v", runner="conc",
                families=["mixed", "guards", "nofast", "helping", "cas", "multi"],
                scenarios=["s01", "s03", "s04", "s05", "s06", "s08", "s09", "s20"], stale=True),
    "C04": dict(props="Props/C04.v", runner="conc",
                families=["basic", "mixed", "cas", "helping", "multi"],
                scenarios=["s05", "s07", "s08", "s09", "s13", "s14", "s19"], deep=["s19"], litmus=True),
    "C05": dict(props="Props/C05.v", runner="conc",
                families=["cas", "mixed", "multi"], scenarios=["s08", "s09", "s19"], deep=["s19"]),
    "C06": dict(props="Props/C06.v", runner="conc",
                families=["cas", "helping"], scenarios=["s08", "s09", "s19"], deep=["s19"]),
    "C07": dict(props="Props/C07.v", runner="conc",
                families=["mixed", "nofast", "guards"], scenarios=["s01", "s03", "s07"], litmus=True),
    "C08": dict(props="Props/C08.v", runner="conc",
                families=["guards", "nofast", "helping", "mixed"], scenarios=["s01", "s03", "s04", "s05"], freeze=True, chase=[("s21", 0, 1)], stale=True),
    "C09": dict(props="Props/C09.v", runner="conc",
                families=["helping", "nofast", "cas", "guards", "churn"], scenarios=["s03", "s05", "s08", "s09", "s10", "s22"], freeze=True),
    "C10": dict(props="Props/C10.v", runner="conc",
                families=["guards", "mixed", "churn", "multi"], scenarios=["s04", "s07", "s10", "s13", "s14"]),
    "C11": dict(props="Props/C11.v", runner="conc",
                families=["churn", "seqchurn", "mixed"], scenarios=["s10", "s17"], late=True, stale=True),
    "C12": dict(props="Props/C12.v", runner="conc",
                families=["multi", "mixed"], scenarios=["s06", "s11"], typed=True, stale=True),
    "C13": dict(props="Props/C13.v", runner="conc",
                families=["wrap", "basic", "helping"], scenarios=["s15", "s23"]),
    "C14": dict(props="Props/C14.v", runner="seq"),
    "C15": dict(props="Props/C15.v", runner="refcnt"),
    "C16": dict(props="Props/C16.v", runner="conc", families=["cache"], scenarios=["s12"], deep=["s12"], stale3=True),
    "C17": dict(props="Props/C17.v", runner="access",
                conc_grids=[("g02_stale_replacement", "C03", "a load started after a completed store must project that store's value or a later one")]),
    "C18": dict(props="Props/C18.v", runner="conc", families=["panic"], scenarios=["s18", "s09"]),
    "C19": dict(props="Props/C19.v", runner="marker"),
    "C20": dict(props="Props/C20.v", runner="serde"),
}

# Axioms of the standard library that a proof may depend on (named in DESIGN.md §5).
ALLOWED_AXIOMS = set([
    # none so far: the target is "Closed under the global context" everywhere
])

FORBIDDEN = r"\b(Admitted|admit|Axiom|Axioms|Parameter|Parameters|Conjecture|Conjectures|Unset\s+Guard\s+Checking|bypass_check|Unset\s+Positivity|Unset\s+Universe\s+Checking|type-in-type|impredicative-set|Admit\s+Obligations)\b"
