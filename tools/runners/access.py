"""Runner for C17 (Access/Map projections): differential runs of /repo (real Arc, real OS
threads taking turns, the real types of arc_swap::access in generated static/dynamic chains,
DefaultStrategy / RwLock<()> / FillFastSlots, both flavours) against the evaluated Coq model
Seq/AccessModel.v — every row: atomic loads/swaps of the container's pointer (hook shim), the
strong count of every object, the value seen through every live projection guard — plus a
direct oracle of the property statement computed independently in Python (search for a failing
input)."""
import os, sys, json, random, time, hashlib, subprocess
HERE = os.path.dirname(os.path.abspath(__file__))
TOOLS = os.path.dirname(HERE)
ROOT = os.path.dirname(TOOLS)
sys.path.insert(0, TOOLS)
import buildlib, seqx_common as sx

UAF = 4294967295
MAXDEPTH = {"default": 4, "rwlock": 2, "nofast": 2}     # compiled bounds in harness/seqx/src/access_cmd.rs
WRAPS = ["map", "map", "map", "ref", "arc", "box", "dynbox", "dynarc", "dynref", "conv", "convbox", "convarc"]


def coq_targets():
    return ["Seq/AccessModel.vo"]


def build():
    return sx.build_harness()


def trusted_base(pid):
    return [
        "Coq 8.16.1 kernel (coqc; vm_compute only inside Examples and the evaluation of the model on the generated cases); no native_compute",
        "Coq standard library (NArith, List, Lia, Arith) — no axioms; Print Assumptions: closed under the global context",
        "differential harness harness/seqx (sub-command access: type-level bounded recursion building the real Map/AccessConvert/dyn DynAccess/Constant chains, worker threads driven one operation at a time), tools/runners/access.py, tools/seqx_common.py; std's Weak::strong_count as the observation of counts",
        "the arc_swap_verif hook shim (src/verif.rs in /repo) used only to count atomic loads/swaps of the container's pointer",
        "modelled, not verified: std Arc/Weak counting, Box<dyn Deref> (DynGuard) as transparent, thread_local nodes (one fresh node with 8 empty slots and offset 0 per worker thread), rustc's method resolution for AccessConvert::load (self.0.load() resolves to DynAccess::load of the target)",
    ]


def assumptions(pid):
    return [
        "the theorems are about Seq/AccessModel.v: API-call granularity (threads take turns, no preemption inside load/store/drop); interleavings inside one call are the subject of C01/C03/C10 on ASModel",
        "one container per model state; the pointee is immutable; object identities are never reused in the model (address reuse is covered by C01/C15)",
        "projections are total functions V -> V (the model is untyped); a projection that panics is C18's subject",
        "transfer to /repo as far as the differential runs reach (counted in coverage); generic code in src/access.rs is parametric in the accessor type, chains up to 4 wrappers + 1 base projection are instantiated",
    ]


# ---------------------------------------------------------------- generation
class Ids:
    def __init__(self):
        self.n = 0

    def next(self):
        self.n += 1
        return self.n


def gen_tree(rng, ids, depth=0, maxdepth=4):
    me = ids.next()
    nk = 0 if depth >= maxdepth else rng.choice([0, 1, 2, 2, 3])
    if depth == 0:
        nk = rng.choice([1, 2, 3])
    return [me, [gen_tree(rng, ids, depth + 1, maxdepth) for _ in range(nk)]]


def gen_case(rng, cid):
    ids = Ids()
    strategy = rng.choice(["default", "default", "rwlock", "nofast"])
    flavour = rng.choice(["arc", "opt"])
    threads = rng.choice([1, 2, 2, 3])
    init = gen_tree(rng, ids)
    if flavour == "opt" and rng.random() < 0.25:
        init = None
    accs = []
    for _ in range(rng.choice([1, 2, 3, 4])):
        maxd = MAXDEPTH[strategy]
        nw = rng.choice([0, 1, 2, 3, 4, 4][: maxd + 2])
        nw = min(nw, maxd)
        wraps = []
        for _ in range(nw):
            w = rng.choice(WRAPS)
            wraps.append(["map", rng.choice([0, 0, 1, 1, 2, 3])] if w == "map" else [w])
        if rng.random() < 0.15:
            accs.append({"base": "const", "value": gen_tree(rng, ids), "wraps": wraps})
        else:
            base = "optmap" if flavour == "opt" else rng.choice(["direct", "guardmap"])
            accs.append({"base": base, "wraps": wraps})
    ops = []
    nguards, live, nhandles, liveh = 0, [], 0, []
    n_ops = rng.choice([3, 6, 10, 15, 25, 40])
    while len(ops) < n_ops:
        r = rng.random()
        if r < 0.33:
            t = rng.randrange(threads)
            burst = 1 if rng.random() < 0.85 else rng.choice([8, 9, 10])    # exhaust the 8 fast slots of one thread
            for _ in range(burst):
                ops.append(["load", t, rng.randrange(len(accs))])
                live.append(nguards); nguards += 1
        elif r < 0.55:
            if live:
                g = rng.choice(live) if rng.random() < 0.7 else live[0]
                live.remove(g)
                ops.append(["drop", g])
        elif r < 0.75:
            ops.append(["storenew", rng.randrange(threads), gen_tree(rng, ids)])
        elif r < 0.81:
            ops.append(["new", gen_tree(rng, ids)])
            liveh.append(nhandles); nhandles += 1
        elif r < 0.90:
            if nhandles:
                ops.append(["storeh", rng.randrange(threads), rng.randrange(nhandles)])   # may name a dropped handle: no-op on both sides
        elif r < 0.95:
            if flavour == "opt":
                ops.append(["storenull", rng.randrange(threads)])
        else:
            if liveh:
                h = rng.choice(liveh); liveh.remove(h)
                ops.append(["droph", h])
    # drop what is left, in random order, observing each drop
    rng.shuffle(live)
    for g in live[: rng.choice([0, len(live), len(live)])]:
        ops.append(["drop", g])
    return {"id": cid, "flavour": flavour, "strategy": strategy, "threads": threads, "init": init, "accs": accs, "ops": ops}


# ---------------------------------------------------------------- model side
def coq_tree(t):
    return "(T %d%%N %s)" % (t[0], sx.coq_list([coq_tree(k) for k in t[1]]))


def coq_acc(spec):
    if spec["base"] == "const":
        a = "(Cn %s)" % coq_tree(spec["value"])
    elif spec["base"] == "direct":
        a = "(Rf D)"
    else:                       # guardmap / optmap: c.map(unwrapping projection)
        a = "(Mi (Rf D))"
    for w in spec["wraps"]:
        k = w[0]
        if k == "map":
            a = "(Mp %s %d)" % (a, w[1])
        elif k == "ref":
            a = "(Rf %s)" % a
        elif k == "arc":
            a = "(Ar %s)" % a
        elif k == "box":
            a = "(Bx %s)" % a
        elif k == "dynbox":
            a = "(Bx (Dy %s))" % a
        elif k == "dynarc":
            a = "(Ar (Dy %s))" % a
        elif k == "dynref":
            a = "(Rf (Dy %s))" % a
        elif k == "conv":
            a = "(Cv (Rf %s))" % a
        elif k == "convbox":
            a = "(Cv (Bx (Dy %s)))" % a
        elif k == "convarc":
            a = "(Cv (Ar %s))" % a
        else:
            raise ValueError(k)
    return a


def dims(case):
    nobj = (0 if case["init"] is None else 1) + sum(1 for o in case["ops"] if o[0] in ("new", "storenew"))
    ng = sum(1 for o in case["ops"] if o[0] == "load")
    return nobj, ng


def model_term(case):
    nobj, ng = dims(case)
    ops = []
    for o in case["ops"]:
        k = o[0]
        if k == "load":
            ops.append("Ld %d %s" % (o[1], coq_acc(case["accs"][o[2]])))
        elif k == "drop":
            ops.append("Dr %d" % o[1])
        elif k == "new":
            ops.append("Nw %s" % coq_tree(o[1]))
        elif k == "droph":
            ops.append("Dh %d" % o[1])
        elif k == "storenew":
            ops.append("Sn %s" % coq_tree(o[2]))
        elif k == "storeh":
            ops.append("Sh %d" % o[2])
        elif k == "storenull":
            ops.append("S0")
        else:
            raise ValueError(k)
    init = "None" if case["init"] is None else "(Some %s)" % coq_tree(case["init"])
    fast = "true" if case["strategy"] == "default" else "false"
    return "access_case %s %d %d %d %s %s" % (fast, case["threads"], nobj, ng, init, sx.coq_list(ops))


HEADER = "From Coq Require Import NArith List. Import ListNotations.\nFrom Seq Require Import AccessModel. Import AccNames.\n"


# ---------------------------------------------------------------- the property's own oracle (independent of Coq)
NULL = [0, []]


def project(spec, cur):
    """what a guard of this accessor must show while it lives: the chain's projections applied
    to the value stored at load time (cur: tree or None for null) — wrappers other than map are
    transparent (static = dynamic dispatch), a Constant yields its own value"""
    v = spec["value"] if spec["base"] == "const" else (cur if cur is not None else NULL)
    for w in spec["wraps"]:
        if w[0] == "map":
            v = v[1][w[1]] if w[1] < len(v[1]) else NULL
    return v[0]


def oracle(case, rows):
    """returns list of violations of the property statement by the implementation's rows"""
    nobj, ng = dims(case)
    out = []
    cur, cur_obj = case["init"], (0 if case["init"] is not None else None)
    objs = 1 if case["init"] is not None else 0
    handles = []           # (tree, obj, live)
    guards = []            # dict(expect, obj, live)
    if len(rows) != len(case["ops"]) + 1:
        return ["%d rows for %d operations" % (len(rows), len(case["ops"]))]

    def check(i, what):
        row = rows[i]
        counts, views = row[2:2 + nobj], row[2 + nobj:]
        for g, gi in enumerate(guards):
            if not gi["live"]:
                continue
            if views[g] == UAF or (gi["obj"] is not None and counts[gi["obj"]] == 0):
                out.append("row %d (%s): guard %d is alive but its snapshot (object %s) has been freed (strong count 0)" % (i, what, g, gi["obj"]))
            elif views[g] != gi["expect"] + 1:
                out.append("row %d (%s): guard %d (accessor %s) shows node %d, its snapshot's projection is node %d" % (
                    i, what, g, json.dumps(case["accs"][gi["acc"]]), views[g] - 1, gi["expect"]))
    check(0, "construction")
    for i, o in enumerate(case["ops"]):
        k = o[0]
        if k == "load":
            spec = case["accs"][o[2]]
            guards.append({"expect": project(spec, cur), "obj": None if spec["base"] == "const" else cur_obj, "live": True, "acc": o[2]})
        elif k == "drop":
            if o[1] < len(guards):
                guards[o[1]]["live"] = False
        elif k == "new":
            handles.append([o[1], objs, True]); objs += 1
        elif k == "droph":
            if o[1] < len(handles):
                handles[o[1]][2] = False
        elif k == "storenew":
            cur, cur_obj = o[2], objs; objs += 1
        elif k == "storeh":
            if o[2] < len(handles) and handles[o[2]][2]:
                cur, cur_obj = handles[o[2]][0], handles[o[2]][1]
        elif k == "storenull":
            cur, cur_obj = None, None
        check(i + 1, json.dumps(o)[:80])
        if len(out) > 5:
            break
    return out


# ---------------------------------------------------------------- run
def _run_cases(cases, workdir, tag):
    os.makedirs(workdir, exist_ok=True)
    cpath = os.path.join(workdir, "%s.cases" % tag)
    with open(cpath, "w") as f:
        for c in cases:
            f.write(json.dumps(c) + "\n")
    return sx.run_harness("access", cpath)


def chain_shape(spec):
    return spec["base"] + ":" + ",".join(w[0] for w in spec["wraps"])


def run(pid, cfg, tier, seed, workdir, already_broken):
    rng = random.Random(seed * 1000003 + 17)
    n_cases = 260 if tier == "quick" else 12000
    cases = [gen_case(rng, i) for i in range(n_cases)]
    broken, findings = [], []
    # guards whose snapshot is stored inline in the guard (Map over Constant, ...), moved between dereferences
    try:
        pr = subprocess.run([sx.exe(), "constmove"], stdout=subprocess.PIPE, stderr=subprocess.STDOUT, timeout=120)
        ctxt, crc = pr.stdout.decode(errors="replace"), pr.returncode
    except (subprocess.TimeoutExpired, OSError) as ex:
        ctxt, crc = repr(ex), -9
    if crc != 0 or "CONSTMOVE-OK" not in ctxt:
        findings.append({"message": "C17 fails on the implementation: a projection guard does not keep denoting the projection of its own snapshot when it is moved: " + ctxt.strip()[-400:], "cls": None,
                         "replay": {"case": "cd /verif/harness/seqx && cargo build --offline && target/debug/seqx constmove", "impl_result": ctxt.splitlines()[-10:]}})
    rc, results, err = _run_cases(cases, workdir, "access")
    if len(results) != len(cases):
        broken.append("harness seqx access failed (exit %s, %d of %d result lines): %s" % (rc, len(results), len(cases), err[-300:]))
        results = results + [{"error": "no result"}] * (len(cases) - len(results))
    rows_m, problem = sx.eval_model(HEADER, [model_term(c) for c in cases], os.path.join(workdir, "model"), shard=200)
    if problem:
        broken.append("the Coq model could not be evaluated on the generated cases: " + problem)
        rows_m = [None] * len(cases)

    agree, n_rows = 0, 0
    first_dis = None
    distinct = set()
    shapes = {}
    dist = {"strategy": {}, "flavour": {}, "threads": {}, "ops": {}, "depth": {}, "guards_alive_across_store": 0,
            "loads_without_free_slot": 0, "debts_paid_by_store": 0, "max_live_guards": 0}
    for c, res, rm in zip(cases, results, rows_m):
        for k in ("strategy", "flavour", "threads"):
            dist[k][str(c[k])] = dist[k].get(str(c[k]), 0) + 1
        for o in c["ops"]:
            dist["ops"][o[0]] = dist["ops"].get(o[0], 0) + 1
        for a in c["accs"]:
            d = str(len(a["wraps"]) + (0 if a["base"] in ("direct", "const") else 1))
            dist["depth"][d] = dist["depth"].get(d, 0) + 1
            shapes[chain_shape(a)] = shapes.get(chain_shape(a), 0) + 1
        if "error" in res:
            broken.append("harness error on case %s: %s" % (c["id"], res["error"]))
            continue
        ri = res["rows"]
        orc = oracle(c, ri)
        nobj, ng = dims(c)
        # measured facts about the run (from the implementation's rows)
        live = 0
        livemax = 0
        for i, o in enumerate(c["ops"]):
            if o[0] == "load":
                live += 1
                if c["strategy"] == "default" and i + 1 < len(ri) and ri[i + 1][2:2 + nobj] != ri[i][2:2 + nobj]:
                    dist["loads_without_free_slot"] += 1
            elif o[0] == "drop":
                pass
            elif o[0].startswith("store"):
                alive = sum(1 for v in ri[i + 1][2 + nobj:] if v not in (0,))
                dist["guards_alive_across_store"] += alive
                if c["strategy"] == "default" and i + 1 < len(ri):
                    before, after = ri[i][2:2 + nobj], ri[i + 1][2:2 + nobj]
                    dist["debts_paid_by_store"] += sum(1 for b, a in zip(before, after) if a > b and b > 0)
            livemax = max(livemax, sum(1 for v in ri[min(i + 1, len(ri) - 1)][2 + nobj:] if v != 0))
        dist["max_live_guards"] = max(dist["max_live_guards"], livemax)
        dis = None
        if rm is not None:
            n_rows += len(rm)
            if ri != rm:
                j = next((j for j in range(min(len(ri), len(rm))) if ri[j] != rm[j]), min(len(ri), len(rm)))
                what = "construction" if j == 0 else json.dumps(c["ops"][j - 1])[:120]
                dis = "row %d (after %s): implementation %s, model %s  [layout: loads, swaps, %d strong counts, %d guard views]" % (
                    j, what, ri[j] if j < len(ri) else None, rm[j] if j < len(rm) else None, nobj, ng)
                if first_dis is None:
                    first_dis = (c, dis)
        if not orc and dis is None and rm is not None:
            agree += 1
            if any(o[0] == "load" for o in c["ops"]):
                distinct.add(hashlib.sha1(json.dumps(ri).encode()).hexdigest())
        if orc and len(findings) < 3:
            findings.append({"message": "C17 fails on the implementation: " + orc[0], "cls": None,
                             "replay": {"case": c, "impl_rows": ri, "model_rows": rm, "oracle_failures": orc[:6], "model_disagreement": dis}})
    if first_dis:
        c, dis = first_dis
        broken.append("model Seq/AccessModel.v and implementation disagree on case %s (%s/%s, %d threads): %s" % (
            c["id"], c["flavour"], c["strategy"], c["threads"], dis[:600]))
        if not findings:
            # no statement-level failure found: keep the concrete diverging input in the evidence of the broken item
            broken[-1] += " | case: " + json.dumps(c)[:1500]
    samples = []
    for i in (0, len(cases) // 2):
        if i < len(cases) and "rows" in results[i]:
            samples.append({"case": cases[i], "impl_rows": results[i]["rows"][:8], "model_rows": (rows_m[i] or [])[:8]})
    coverage = {
        "traces_validated_against_impl": agree,
        "evaluations": len(cases),
        "distinct_nontrivial": len(distinct),
        "rule": "one case = flavour x strategy x 1-3 worker threads x 1-4 generated accessor chains (real arc_swap::access types, 0-4 wrappers from map/&/Arc/Box/Box<dyn>/Arc<dyn>/&dyn/AccessConvert over &, Box<dyn>, Arc; bases: container directly, ArcSwapAny::map over its Guard, over Option, Constant) x 3-50 operations (load on a thread, drop any guard, store fresh / kept / None, handle new/drop); after every operation the row (atomic loads, swaps, every strong count, every live guard's value) is compared with the Coq model's row; distinct_nontrivial = distinct implementation row sequences (sha1) of agreeing cases with at least one load",
        "rows_compared": n_rows,
        "distinct_chain_shapes": len(shapes),
        "distribution": dist,
        "samples": samples,
    }
    summary = "%d/%d cases agree with the model row by row and with the property oracle; %d rows, %d distinct chain shapes, %d guard-lifetimes spanning a store" % (
        agree, len(cases), n_rows, len(shapes), dist["guards_alive_across_store"])
    search = "%d generated cases; oracle = projection of the value stored at load time for every live guard after every operation, snapshot count >= 1" % len(cases)
    return {"broken": broken[:6], "findings": findings, "coverage": coverage, "summary": summary, "search_summary": search}


def replay(pid, cfg, path, workdir):
    d = json.load(open(path))
    if "case" not in d:
        print(json.dumps(d, indent=1))
        return 0
    probs = build()
    if probs:
        print("\n".join(probs))
        return 2
    case = d["case"]
    if isinstance(case, str):
        # a finding of one of the stand-alone tests of harness/seqx: the replay is the command itself
        import subprocess as _sp
        print("replaying:", case)
        pr = _sp.run(case, shell=True, stdout=_sp.PIPE, stderr=_sp.STDOUT, timeout=1200)
        print(pr.stdout.decode(errors="replace")[-3000:])
        return 1 if pr.returncode != 0 else 0
    rc, results, err = _run_cases([case], workdir, "replay")
    print("case:", json.dumps(case))
    if not results or "rows" not in results[0]:
        print("harness:", results, err)
        return 2
    rows_m, problem = sx.eval_model(HEADER, [model_term(case)], os.path.join(workdir, "model"))
    if problem:
        print("model evaluation failed:", problem)
        return 2
    nobj, ng = dims(case)
    print("row layout: atomic loads, swaps, %d strong counts, %d guard views (0 = none, id+1, %d = use after free)" % (nobj, ng, UAF))
    ri, rm = results[0]["rows"], rows_m[0]
    for j in range(max(len(ri), len(rm))):
        a = ri[j] if j < len(ri) else None
        b = rm[j] if j < len(rm) else None
        print("%3d %-40s impl %s  model %s %s" % (j, "construction" if j == 0 else json.dumps(case["ops"][j - 1])[:40], a, b, "" if a == b else "  <-- differ"))
    orc = oracle(case, ri)
    for m in orc:
        print("PROPERTY FAILS:", m)
    return 1 if (orc or ri != rm) else 0
