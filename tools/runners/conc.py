"""Runner for the properties decided on ASModel: trace correspondence between the real
crate (harness/conc, controlled scheduler, hooks) and the extracted model, plus the
oracles on the implementation traces (search for a failing input)."""
import os, sys, glob, json, time, subprocess
HERE = os.path.dirname(os.path.abspath(__file__))
TOOLS = os.path.dirname(HERE)
ROOT = os.path.dirname(TOOLS)
sys.path.insert(0, TOOLS)
import buildlib, corr, sweep, trace as tracemod, gen_programs


def coq_targets():
    return ["ASModel/Extract.vo"]


def build():
    broken = []
    ok, out = buildlib.ocaml_build()
    if not ok:
        broken.append("extracted model driver does not build: " + out[-400:])
    ok, out = buildlib.harness_build("conc")
    if not ok:
        errs = [l for l in out.splitlines() if l.startswith("error")]
        broken.append("harness does not build against /repo with --cfg arc_swap_verif (correspondence cannot run): " + " | ".join(errs[:4]))
    return broken


def trusted_base(pid):
    return [
        "Coq 8.16.1 kernel (coqc; vm_compute only inside Examples); no native_compute",
        "stdpp 1.8.0 (base, decidable, numbers, option, list) — no axioms",
        "translator tools/gen_orderings.py (regenerates ASModel/Orderings_gen.v from /repo/src on every run; refuses on an unknown or missing atomic call site)",
        "extraction: Require Extraction + ExtrOcamlBasic only (bool, option, unit, prod, list, sumbool, sumor extracted to OCaml natives; N/positive stay inductive; no Extract Constant), OCaml 4.13 driver coq/driver/model_run.ml",
        "correspondence machinery: src/verif.rs hook shim in /repo (cfg arc_swap_verif), harness/conc (baton scheduler over OS threads, VPtr arena, address canonicalisation), tools/corr.py line diff ('?' wildcard only for the private cached pointer of Cache::new)",
        "modelled, not verified: global allocator / Box::leak of nodes, thread_local life cycle, the RefCnt implementation of the pointee (VPtr arena stands in for Arc), Rust unwinding",
        "memory model: sequentially consistent interleavings of the atomic accesses, except five load sites that may be answered with stale values (Stale.v, Stale2.v, StaleC.v: first read of the fast path, slot scan, in_use look, head read before the push loop, the cache's revalidating read - the last with views, StaleCView.v); for everything else the orderings enter the trace comparison and the C07 skeleton only",
    ]


def assumptions(pid):
    return [
        "the theorems are about ASModel (coq/ASModel); they transfer to /repo only as far as the trace correspondence reaches (generated programs x schedules, counted in coverage)",
        "sequentially consistent semantics of atomics in the model",
        "allocator returns an address that is not live, not 0 and not 3",
    ]


def _scen_paths(prefixes):
    out = []
    for p in sorted(glob.glob(os.path.join(ROOT, "corpus/scenarios/*.prog"))):
        b = os.path.basename(p)
        if any(b.startswith(x + "_") for x in prefixes):
            out.append(p)
    return out


def _mine(results, pid):
    out = []
    for r in results:
        for x in r.get("findings", []):
            if x[0] == pid:
                out.append(((x[0], x[1], r["base"], x[2] if len(x) > 2 else None), r))
    # unknown classes first
    out.sort(key=lambda fr: fr[0][3] is not None)
    return out


def _mk_finding(pid, f, r):
    """f = (pid, msg, base, cls); r = result dict of the run."""
    base = r["base"]
    def rd(ext, lim=400):
        try:
            return open(base + ext).read().splitlines()[:lim]
        except OSError:
            return []
    return {"message": f[1], "cls": f[3] if len(f) > 3 else None,
            "replay": {"program": open(r["prog"]).read(), "schedule": rd(".sched", 5000), "policy": r["policy"],
                       "impl_trace": rd(".impl", 600), "model_trace": rd(".model", 600)}}


def run(pid, cfg, tier, seed, workdir, already_broken):
    t0 = time.time()
    os.environ["MODEL_SCOPE_CHECK"] = "1"
    if cfg.get("stale3"):
        os.environ["MODEL_VIEW_CHECK"] = "1"
    if cfg.get("acc_check"):
        os.environ["MODEL_ACC_CHECK"] = "1"
    if cfg.get("prot_check"):
        os.environ["MODEL_PROT_CHECK"] = "1"
    results = []
    # corpus of minimised failing schedules first
    for rp in sorted(glob.glob(os.path.join(ROOT, "corpus/replays/%s/*.json" % pid))):
        d = json.load(open(rp))
        base = os.path.join(workdir, "corpus-" + os.path.basename(rp)[:-5])
        open(base + ".prog", "w").write(d["program"])
        open(base + ".rsched", "w").write("\n".join(d["schedule"]) + "\n")
        results.append(corr.run_program(base + ".prog", 0, "replay", base, family="corpus", replay=base + ".rsched"))
    # preemption sweeps over the property's scenarios
    maxp = 120 if tier == "quick" else 200
    for sp in _scen_paths(cfg.get("scenarios", [])):
        deep = any(os.path.basename(sp).startswith(x + "_") for x in cfg.get("deep", [])) or tier == "thorough"
        results += sweep.sweep(sp, os.path.join(workdir, "sweep"), maxp=maxp, two_level=True, three_level=deep)
    # operations from thread-local destructors after arc-swap's own TLS is gone (not modelled: a test on the crate)
    late_findings = []
    if cfg.get("late"):
        ok, out = buildlib.harness_build("late")
        exe = os.path.join(ROOT, "harness/target/debug/late")
        for args in (["20", "3"], ["60", "8"]) if tier == "quick" else (["20", "3"], ["60", "8"], ["400", "16"]):
            try:
                p = subprocess.run([exe] + args, stdout=subprocess.PIPE, stderr=subprocess.STDOUT, timeout=300)
                rc, txt = p.returncode, p.stdout.decode(errors="replace")[-1500:]
            except (subprocess.TimeoutExpired, OSError) as ex:
                rc, txt = -9, repr(ex)
            if rc != 0 or "LATE-OK" not in txt:
                late_findings.append({"message": "operations executed from a thread-local destructor after arc-swap's own thread-local was destroyed failed (harness/late %s: exit %s): %s" % (" ".join(args), rc, txt.strip()[-400:]),
                                      "cls": None,
                                      "replay": {"program": "cd /verif/harness && cargo build --offline -p late && target/debug/late %s" % " ".join(args),
                                                 "schedule": [], "policy": "os-threads", "impl_trace": txt.splitlines()[-40:], "model_trace": []}})
    # containers of DIFFERENT pointee types sharing the debt slots (objects of the model are untyped): a
    # deterministic reproduction on the real crate of a debt paid by a writer of another type after address reuse
    if cfg.get("typed"):
        tdir = os.path.join(ROOT, "harness/typed")
        env = dict(os.environ, CARGO_NET_OFFLINE="true", D3_RECYCLE="1")
        try:
            b = subprocess.run(["cargo", "build", "--offline"], cwd=tdir, stdout=subprocess.PIPE, stderr=subprocess.STDOUT, timeout=1200, env=env)
            outs = {}
            for mode in ([], ["control"]):
                p = subprocess.run([os.path.join(tdir, "target/debug/d3-repro")] + mode, cwd=tdir, stdout=subprocess.PIPE, stderr=subprocess.STDOUT, timeout=120, env=env)
                outs[" ".join(mode) or "typed"] = (p.returncode, p.stdout.decode(errors="replace"))
        except (subprocess.TimeoutExpired, OSError) as ex:
            outs = {"typed": (-9, repr(ex)), "control": (-9, "")}
        rc_t, txt_t = outs.get("typed", (-9, ""))
        rc_c, txt_c = outs.get("control", (-9, ""))
        def _rp(txt, mode):
            return {"program": "cd /verif/harness/typed && cargo build --offline && D3_RECYCLE=1 target/debug/d3-repro %s   (README.md there describes the interleaving)" % mode,
                    "schedule": [], "policy": "forced by the hooks of src/verif.rs", "impl_trace": txt.splitlines()[-40:], "model_trace": []}
        if "D3-REPRODUCED" in txt_t:
            late_findings.append({"message": "two containers of different pointee types: a reader releases, as its own type T, the reference a writer of the other container put on a U object at a reused address (HybridProtection::attempt, `T::dec(ptr)` after a failed pay): T's destructor runs on a U", "cls": "D3-cross-type-payment", "replay": _rp(txt_t, "")})
        elif "D3-NOT-OBSERVED" not in txt_t and "D3-INCONCLUSIVE" not in txt_t:
            late_findings.append({"message": "the two-type scenario of harness/typed failed in an unexpected way (exit %s): %s" % (rc_t, txt_t.strip()[-300:]), "cls": None, "replay": _rp(txt_t, "")})
        if "D3-NOT-OBSERVED" not in txt_c:
            late_findings.append({"message": "the same-type control of harness/typed (same interleaving, both containers of type T) does not behave correctly (exit %s): %s" % (rc_c, txt_c.strip()[-300:]), "cls": None, "replay": _rp(txt_c, "control")})
    # weak-memory executions: Miri litmus programs on the crate as users get it (no hooks); only when the
    # ordering obligations no longer check (search for a failing input) or in the thorough tier
    if cfg.get("litmus") and (already_broken or tier == "thorough"):
        env = dict(os.environ, LITMUS_TIMEOUT="150")
        try:
            p = subprocess.run([os.path.join(ROOT, "harness/litmus/run.sh")], stdout=subprocess.PIPE, stderr=subprocess.STDOUT, timeout=2400, env=env)
            ltxt = p.stdout.decode(errors="replace")
        except (subprocess.TimeoutExpired, OSError) as ex:
            ltxt = "FAIL litmus runner: %r" % (ex,)
        for l in ltxt.splitlines():
            if l.startswith("FAIL"):
                late_findings.append({"message": "Miri reports undefined behaviour (data race / use after free) in a litmus program on the unmodified crate API: " + l[:600], "cls": None,
                                      "replay": {"program": "cd /verif && harness/litmus/run.sh " + (l.split()[1] if len(l.split()) > 1 else ""), "schedule": [], "policy": "miri seeds in the message",
                                                 "impl_trace": ltxt.splitlines()[-20:], "model_trace": []}})
    # adversary for wait-freedom: a writer completes a store between the reader's read and its confirmation, every round
    for (scen, rd, wr) in cfg.get("chase", []):
        for sp in _scen_paths([scen]):
            base = os.path.join(workdir, "chase-%s-%d-%d" % (scen, rd, wr))
            results.append(corr.run_program(sp, 0, "chase:%d:%d" % (rd, wr), base, family="corpus"))
    for gp in sweep.grids_for(pid, ROOT):
        results += sweep.grid_sweep(gp, os.path.join(workdir, "grid"), tier=tier)
    if cfg.get("freeze"):
        for sp in _scen_paths(cfg.get("scenarios", []))[:7 if tier == "quick" else 99]:
            results += sweep.freeze_sweep(sp, os.path.join(workdir, "freeze"),
                                          maxp=(14 if tier == "quick" else 40), maxq=(30 if tier == "quick" else 70))
    # random programs x schedules
    n = 24 if tier == "quick" else 600
    rs, _ = corr.run_batch(cfg.get("families", []), n, seed, os.path.join(workdir, "rand"))
    results += rs
    if cfg.get("stale"):
        # weak memory, the loads the protocol does not trust: the Relaxed first read of the fast path ("stale"), and also the
        # Relaxed slot scan, the Acquire look at in_use in check_cooldown and the Relaxed head read before the push loop
        # ("stale2") are answered with values the location held earlier, within what coherence permits (the hook shim's
        # Decision::Stale; the model follows with Stale2.step_stale2)
        rs2, _ = corr.run_batch(cfg.get("families", []), max(8, n // 3), seed + 5, os.path.join(workdir, "stale"), policies=("stale", "stale2"))
        results += rs2
        rs3, _ = corr.run_batch(["churn", "guards"], max(8, n // 3), seed + 6, os.path.join(workdir, "stale2"), policies=("stale2",))
        results += rs3
        for sp in _scen_paths(["s24"]):
            for sd in range(1, 41 if tier == "quick" else 400):
                results.append(corr.run_program(sp, sd, "stale", os.path.join(workdir, "stale-s24-%d" % sd), family="corpus"))
    if cfg.get("stale3"):
        # weak memory where the value IS trusted: the Relaxed revalidating read of Cache::load is answered with older values of
        # the storage that the thread may still read (per-thread views with release/acquire transfer through every atomic
        # location and join); the model follows with StaleC.step_stale3, its own views (StaleCView.v) confirm that every
        # supplied value is within the theorem's hypothesis, the C16 oracle judges freshness against happens-before
        rs4, _ = corr.run_batch(cfg.get("families", []), max(400, 3 * n), seed + 7, os.path.join(workdir, "stale3"), policies=("stale3",))
        results += rs4
        for sp in _scen_paths(["s25"]):
            for sd in range(1, 61 if tier == "quick" else 600):
                results.append(corr.run_program(sp, sd, "stale3", os.path.join(workdir, "stale3-s25-%d" % sd), family="corpus"))
    s = corr.summarize(results)
    broken = []
    if s["diverged"]:
        r = s["diverged"][0]
        broken.append("trace correspondence model<->code: %d of %d runs diverge; first: %s event %d impl `%s` model `%s`" % (
            len(s["diverged"]), s["runs"], os.path.basename(r["base"]), r["divergence"]["index"],
            r["divergence"]["impl"], r["divergence"]["model"]))
    if s["failed"]:
        r = s["failed"][0]
        broken.append("harness or model run failed (%s) on %s: %s" % (r["status"], os.path.basename(r["base"]), r.get("stderr", "")[-200:]))
    mine = _mine(results, pid)
    harness_err = [(f, r) for r in results for f in [(x[0], x[1], r["base"]) for x in r.get("findings", [])] if f[0] == "HARNESS"]
    if harness_err:
        broken.append("harness error: " + harness_err[0][0][1][:300])
    search_summary = "%d runs (%d scenario sweeps + random), %d steps" % (s["runs"], s["runs"] - len(rs), s["steps"])
    # intensified search when something no longer checks and no failing input is known yet
    if (broken or already_broken) and not [m for m in mine if m[0][3] is None]:
        budget = 120 if tier == "quick" else 900
        t1 = time.time()
        extra = []
        for sp in _scen_paths(cfg.get("scenarios", [])):
            if time.time() - t1 > budget:
                break
            extra += sweep.sweep(sp, os.path.join(workdir, "sweep2"), maxp=60, two_level=True, three_level=True)
            if cfg.get("freeze"):
                extra += sweep.freeze_sweep(sp, os.path.join(workdir, "freeze2"), maxp=40, maxq=70)
            mine = [m for m in _mine(extra, pid) if m[0][3] is None]
            if mine:
                break
        if not mine and time.time() - t1 < budget:
            rs2, _ = corr.run_batch(cfg.get("families", []), 300, seed + 17, os.path.join(workdir, "rand2"))
            extra += rs2
            mine = [m for m in _mine(extra, pid) if m[0][3] is None]
        search_summary += "; intensified search: %d more runs in %.0fs, %s" % (len(extra), time.time() - t1, "failing input found" if mine else "no failing input found")
    # one finding per class (unknown class = each distinct message counts)
    seen_cls = set()
    findings = list(late_findings)
    for f, r in mine:
        key = f[3] or ("msg:" + f[1][:60])
        if key in seen_cls:
            continue
        seen_cls.add(key)
        findings.append(_mk_finding(pid, f, r))
        if len(findings) >= 4:
            break
    samples = []
    for r in results[:2] + results[-1:]:
        samples.append({"program": open(r["prog"]).read() if os.path.exists(r["prog"]) else os.path.basename(r["prog"]),
                        "policy": r["policy"], "steps": r.get("steps"), "status": r["status"]})
    coverage = {
        "traces_validated_against_impl": s["ok"],
        "runs_within_scope_of_end_to_end_theorems": s["in_scope"],
        "scope_rule": "a run is inside Main.RunOK when its program has no set_generation/cache command and the extracted mirror coq/ASModel/Scope.v of GenBound, DstEmpty, CloneSrcCmd and alloc_ok holds before every step",
        "evaluations": s["runs"],
        "distinct_nontrivial": len(s["digests"]),
        "rule": "one run = one program x one schedule executed on /repo (hooks on) and replayed on the extracted model, all events compared; distinct = distinct implementation traces (sha1), all have >= 1 API call per thread",
        "steps_compared": s["steps"],
        "events_compared": s["events"],
        "path_distribution": s["stats"],
        "by_family": s["by_family"],
        "max_own_steps_per_load": s["max_load_steps"],
        "samples": samples,
    }
    summary = "%d/%d traces agree with the model, %d distinct, %d steps, paths %s" % (
        s["ok"], s["runs"], len(s["digests"]), s["steps"], s["stats"])
    return {"broken": broken, "findings": findings, "coverage": coverage, "summary": summary, "search_summary": search_summary}


def replay(pid, cfg, path, workdir):
    d = json.load(open(path))
    if "program" not in d:
        print(json.dumps(d, indent=1))
        return 0
    if isinstance(d.get("program"), str) and d["program"].lstrip().startswith("cd /verif"):
        # a finding of a stand-alone test on the crate (harness/late, harness/typed, Miri litmus): the replay is the command
        print("replaying:", d["program"])
        cmdline = d["program"].split("   (")[0]
        pr = subprocess.run(cmdline, shell=True, stdout=subprocess.PIPE, stderr=subprocess.STDOUT, timeout=2400)
        out = pr.stdout.decode(errors="replace")
        print(out[-3000:])
        bad = pr.returncode != 0 or "D3-REPRODUCED" in out or "FAIL" in out.split("\n")[-3:].__str__()
        return 1 if bad else 0
    buildlib.harness_build("conc")
    buildlib.ocaml_build()
    base = os.path.join(workdir, "replay")
    open(base + ".prog", "w").write(d["program"])
    open(base + ".rsched", "w").write("\n".join(d["schedule"]) + "\n")
    r = corr.run_program(base + ".prog", 0, "replay", base, family="corpus", replay=base + ".rsched")
    print("status", r["status"], "exit", r["impl_exit"], r.get("divergence", ""))
    for f in r.get("findings", []):
        print("FINDING", f)
    for ext in (".impl", ".model"):
        print("----", ext)
        try:
            print(open(base + ext).read())
        except OSError:
            pass
    return 1 if r.get("findings") or r["status"] != "ok" else 0
