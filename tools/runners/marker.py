"""Runner for C19 (Send/Sync markers).

Ties Marker/AutoTraits.v + the regenerated Marker/Types_gen.v to the real crate by translation
validation against rustc:

  * the matrix the Coq theorems quantify over (Marker/Matrix.v) is printed by the EXTRACTED Coq
    code (coq/driver/marker_run.ml): one line per cell = wrapper x pointer kind x strategy x
    valuation x trait, with the Rust type, the model's verdict, and what the wrapper stores
    (the conditions of the property statement) with their verdicts;
  * harness/marker is compiled against /repo's working tree with two generated files:
      probe  — MEASURES rustc's verdict for every distinct type (Send?, Sync?),
      assert — one assertion per (type, trait) as the model predicts it (bound for "implements",
               ambiguous-impl trick for "does not implement"): compiles iff rustc agrees everywhere;
  * model verdict != rustc verdict  -> the correspondence is broken (cell named);
  * independently of the model, the property statement itself is evaluated on rustc's verdicts:
    a wrapper that is Send/Sync although something it stores is not  -> UNSOUND instantiation,
    reported as a failing input with a tiny program that compiles and moves e.g. an Rc across
    threads; a wrapper that is not although everything it stores is -> INCOMPLETE instantiation.

Nothing is sampled: both tiers enumerate; `seed` is not used.
"""
import os, sys, json, re, time, shutil, subprocess, hashlib
HERE = os.path.dirname(os.path.abspath(__file__))
TOOLS = os.path.dirname(HERE)
ROOT = os.path.dirname(TOOLS)
sys.path.insert(0, TOOLS)
import buildlib

REPO = os.environ.get("VERIF_REPO", "/repo")
COQ = os.path.join(ROOT, "coq")
CRATE = os.path.join(ROOT, "harness", "marker")
TARGET = os.path.join(ROOT, "harness", "target", "marker")
MWORK = os.path.join(ROOT, "work", "marker")
CHUNK = 400
_STATE = {}


# --------------------------------------------------------------------------- builds

def coq_targets():
    os.makedirs(os.path.join(COQ, "extract"), exist_ok=True)
    return ["Marker/ExtractCells.vo"]


def _sh(cmd, cwd, env=None, timeout=1800):
    e = dict(os.environ, CARGO_NET_OFFLINE="true")
    if env:
        e.update(env)
    p = subprocess.run(cmd, cwd=cwd, stdout=subprocess.PIPE, stderr=subprocess.STDOUT, timeout=timeout, env=e)
    return p.returncode, p.stdout.decode(errors="replace")


def _ocaml_build():
    """coq/extract/marker.ml (extracted by Marker/ExtractCells.v) + coq/driver/marker_run.ml -> coq/build/marker/marker_run"""
    ml = os.path.join(COQ, "extract", "marker.ml")
    vo = os.path.join(COQ, "Marker", "ExtractCells.vo")
    srcs = [os.path.join(COQ, "Marker", f) for f in ("AutoTraits.v", "Types_gen.v", "Matrix.v", "ExtractCells.v")]
    if not os.path.exists(ml) or not os.path.exists(vo) or any(os.path.getmtime(s) > os.path.getmtime(ml) for s in srcs if os.path.exists(s)):
        # the property file may have failed to build before make reached the extraction
        buildlib.coq_makefile()
        rc, out = _sh(["make", "Marker/ExtractCells.vo"], COQ, timeout=1200)
        if rc != 0 or not os.path.exists(ml):
            return False, "Marker/ExtractCells.v does not build: " + out[-500:]
    b = os.path.join(COQ, "build", "marker")
    os.makedirs(b, exist_ok=True)
    exe = os.path.join(b, "marker_run")
    ins = [ml, ml + "i", os.path.join(COQ, "driver", "marker_run.ml")]
    if os.path.exists(exe) and all(os.path.getmtime(s) <= os.path.getmtime(exe) for s in ins):
        return True, ""
    for s in ins:
        shutil.copy(s, b)
    rc, out = _sh(["ocamlfind", "ocamlopt", "-O2", "-w", "-a", "marker.mli", "marker.ml", "marker_run.ml", "-o", "marker_run"], b, timeout=600)
    return rc == 0, out[-500:]


class Cell:
    __slots__ = ("kind", "wrapper", "pointer", "strategy", "val", "trait", "rust", "pred", "conds", "line")


def _cells(tier):
    rc, out = _sh([os.path.join(COQ, "build", "marker", "marker_run"), tier], COQ, timeout=600)
    if rc != 0:
        raise RuntimeError("marker_run failed: " + out[-300:])
    cells = []
    for l in out.splitlines():
        p = l.split("|")
        if len(p) != 9:
            raise RuntimeError("cannot read matrix line %r" % l[:200])
        c = Cell()
        c.kind, c.wrapper, c.pointer, c.strategy, c.val, c.trait, c.rust, c.pred = p[:8]
        c.conds = []
        if p[8]:
            for x in p[8].split("@"):
                tr, ty, pr = x.split("~")
                c.conds.append((tr, ty, pr))
        c.line = l
        cells.append(c)
    return cells


def _write_if_changed(path, text):
    if not os.path.exists(path) or open(path).read() != text:
        open(path, "w").write(text)


def _generate(cells, gen):
    """-> (types list, pairs list [(type, trait, pred)])"""
    os.makedirs(gen, exist_ok=True)
    types, idx, pairs, seen, conflicts = [], {}, [], {}, []
    for c in cells:
        for ty, tr, pr in [(c.rust, c.trait, c.pred)] + [(ty, tr, pr) for tr, ty, pr in c.conds]:
            if ty not in idx:
                idx[ty] = len(types); types.append(ty)
            if (ty, tr) not in seen:
                seen[(ty, tr)] = pr; pairs.append((ty, tr, pr))
            elif seen[(ty, tr)] != pr and len(conflicts) < 20:
                # the same Rust type reached through two different model terms (e.g. a leaf type and
                # a constructor applied to a leaf) must get the same verdict
                conflicts.append((ty, tr, seen[(ty, tr)], pr))
    L = []
    n = 0
    for i in range(0, len(types), CHUNK):
        L.append("fn chunk_%d(out: &mut Vec<(u32, bool, bool)>) {" % n)
        for j, t in enumerate(types[i:i + CHUNK]):
            L.append("    p!(out, %d, %s);" % (i + j, t))
        L.append("}")
        n += 1
    L.append("fn probe_all(out: &mut Vec<(u32, bool, bool)>) {")
    L += ["    chunk_%d(out);" % k for k in range(n)]
    L.append("}")
    _write_if_changed(os.path.join(gen, "probe_cells.rs"), "\n".join(L) + "\n")
    L, linemap = [], {}
    n = 0
    usable = [(ty, tr, pr) for ty, tr, pr in pairs if pr in "01" and "?" not in ty]
    for i in range(0, len(usable), CHUNK):
        L.append("fn achunk_%d() {" % n)
        for ty, tr, pr in usable[i:i + CHUNK]:
            m = {"Send": "send", "Sync": "sync"}[tr]
            L.append("    %s!(%s);" % (m if pr == "1" else "not_" + m, ty))
            linemap[len(L)] = (ty, tr, pr)
        L.append("}")
        n += 1
    L.append("fn assert_all() {")
    L += ["    achunk_%d();" % k for k in range(n)]
    L.append("}")
    L.append("const N_ASSERTIONS: usize = %d;" % len(usable))
    _write_if_changed(os.path.join(gen, "assert_cells.rs"), "\n".join(L) + "\n")
    return types, pairs, linemap, conflicts


def _crate_dir():
    """harness/marker itself when it points at the repository under check, else a patched copy"""
    if REPO == "/repo":
        return CRATE
    d = os.path.join(MWORK, "crate")
    shutil.rmtree(d, ignore_errors=True)
    shutil.copytree(CRATE, d, ignore=shutil.ignore_patterns("target"))
    p = os.path.join(d, "Cargo.toml")
    txt = open(p).read().replace('path = "/repo"', 'path = "%s"' % REPO)
    open(p, "w").write(txt)
    lock = os.path.join(d, "Cargo.lock")
    if os.path.exists(lock):
        os.remove(lock)
    return d


def _cargo(binname, gen, crate, verif_cfg=False, target=TARGET):
    # RUSTFLAGS is set explicitly: it overrides harness/.cargo/config.toml (which turns the
    # instrumentation cfg on for the other harnesses); the markers are checked on the crate as shipped
    env = {"VERIF_MARKER_GEN": gen, "RUSTFLAGS": "--cfg arc_swap_verif" if verif_cfg else ""}
    return _sh(["cargo", "build", "--offline", "--bin", binname, "--target-dir", target], crate, env=env, timeout=3000)


def _errors(out):
    return [l for l in out.splitlines() if l.startswith("error")]


def _prepare(tier):
    """cells -> generated sources -> cargo build of probe and assert.  Returns a state dict."""
    st = {"tier": tier, "broken": [], "cells": [], "types": [], "pairs": [], "measured": None, "assert_failed": [], "conflicts": []}
    ok, out = _ocaml_build()
    if not ok:
        st["broken"].append("the matrix printer (extracted from Marker/Matrix.v) does not build: " + " ".join(out.split())[-400:])
        return st
    try:
        st["cells"] = _cells(tier)
    except (RuntimeError, subprocess.TimeoutExpired) as e:
        st["broken"].append(str(e))
        return st
    gen = os.path.join(MWORK, "gen-" + tier)
    st["gen"] = gen
    st["types"], st["pairs"], st["linemap"], st["conflicts"] = _generate(st["cells"], gen)
    if st["conflicts"]:
        ty, tr, a, b = st["conflicts"][0]
        st["broken"].append("the model gives two different verdicts for the same Rust type: `%s: %s` is %s through one term and %s through another (%d such pairs)" % (
            ty, tr, a, b, len(st["conflicts"])))
    crate = _crate_dir()
    st["crate"] = crate
    rc, out = _cargo("probe", gen, crate)
    open(os.path.join(MWORK, "cargo_probe.log"), "w").write(out)
    if rc != 0:
        st["broken"].append("harness/marker (probe) does not build against %s: %s" % (REPO, " | ".join(_errors(out)[:4]) or out[-300:]))
        return st
    rc2, out2 = _sh([os.path.join(TARGET, "debug", "probe")], crate, timeout=600)
    if rc2 != 0:
        st["broken"].append("probe binary failed: " + out2[-200:])
        return st
    meas = {}
    for l in out2.splitlines():
        i, a, b = l.split()
        meas[(st["types"][int(i)], "Send")] = a
        meas[(st["types"][int(i)], "Sync")] = b
    st["measured"] = meas
    rc, out = _cargo("assert", gen, crate)
    open(os.path.join(MWORK, "cargo_assert.log"), "w").write(out)
    if rc != 0:
        lines = sorted(set(int(x) for x in re.findall(r"assert_cells\.rs:(\d+):", out)))
        st["assert_failed"] = [st["linemap"][n] for n in lines if n in st["linemap"]]
        st["assert_errors"] = _errors(out)[:4]
        if not st["assert_failed"]:
            st["broken"].append("harness/marker (assert) does not build: " + " | ".join(_errors(out)[:4]))
    else:
        rc3, out3 = _sh([os.path.join(TARGET, "debug", "assert")], crate, timeout=600)
        st["assert_run"] = out3.strip()
    return st


def build():
    os.makedirs(MWORK, exist_ok=True)
    t0 = time.time()
    st = _prepare("quick")
    st["build_s"] = round(time.time() - t0, 2)
    _STATE["quick"] = st
    return list(st["broken"])


# --------------------------------------------------------------------------- oracles

LEAF_EXPR = {"u32": "0u32", "::std::cell::Cell<u32>": "::std::cell::Cell::new(0u32)", "*const u8": "::std::ptr::null::<u8>()"}
STRAT_RUST = None


def _program(c, kind):
    """A tiny program for the replay.  kind: 'unsound' (must NOT compile on a sound crate) or
    'incomplete' (must compile on a complete crate)."""
    lower = c.trait.lower()
    head = "// %s  [%s | pointer %s | strategy %s | valuation %s]\n" % (c.wrapper, c.trait, c.pointer, c.strategy, c.val)
    prelude = ("#![allow(deprecated, dead_code, unused)]\n#[path = \"../common.rs\"]\nmod common;\nuse common::{Obj, UserPtr};\n"
               "fn is_send<T: ?Sized + Send>() {}\nfn is_sync<T: ?Sized + Sync>() {}\n")
    body = "    is_%s::<%s>();\n" % (lower, c.rust)
    extra = ""
    m = re.match(r"^::arc_swap::(ArcSwapAny|Guard)<(::std::(?:rc::Rc|sync::Arc))<(.*)>, (.*)>$", c.rust)
    if kind == "unsound" and m and m.group(3) in LEAF_EXPR and c.kind == "P":
        w, ctor, leaf, strat = m.groups()
        val = LEAF_EXPR[leaf]
        extra += "    // the value-level consequence: the pointer crosses the thread boundary\n"
        extra += "    let p: %s<%s> = %s::new(%s);\n" % (ctor, leaf, ctor, val)
        extra += "    let a: ::arc_swap::ArcSwapAny<%s<%s>, %s> = ::arc_swap::ArcSwapAny::with_strategy(p.clone(), Default::default());\n" % (ctor, leaf, strat)
        if w == "ArcSwapAny" and c.trait == "Send":
            extra += "    ::std::thread::spawn(move || { let q = a.load_full(); drop(q.clone()); }).join().unwrap();\n"
        elif w == "ArcSwapAny":
            extra += "    ::std::thread::scope(|s| { s.spawn(|| { let q = a.load_full(); drop(q.clone()); }); drop(p.clone()); });\n"
        elif c.trait == "Send":
            extra += "    let g = a.load();\n    ::std::thread::spawn(move || { let q = ::arc_swap::Guard::into_inner(g); drop(q.clone()); }).join().unwrap();\n"
        else:
            extra += "    let g = a.load();\n    ::std::thread::scope(|s| { s.spawn(|| { let q = (*g).clone(); drop(q); }); drop(p.clone()); });\n"
    return head + prelude + "fn main() {\n" + body + extra + "}\n"


def _rank(c):
    w = {"Guard<P,S>": 0, "ArcSwapAny<P,S>": 1}.get(c.wrapper, 5)
    p = 0 if c.pointer == "Rc<X>" else (1 if c.pointer == "Arc<X>" else 3)
    s = 0 if c.strategy.startswith("HybridStrategy<DefaultConfig>") else 1
    v = 0 if c.val.startswith("B") and set(c.val[1:]) <= {"B"} else 1
    t = 0 if c.trait == "Send" else 1
    return (w, p, s, v, t, len(c.rust))


def _evaluate(st):
    """-> (broken, findings, stats)"""
    broken, findings = [], []
    cells, meas = st["cells"], st["measured"]
    stats = {"cells": len(cells), "agree": 0, "disagree": 0, "undefined": 0, "unsound": 0, "incomplete": 0}
    if meas is None:
        return broken, findings, stats
    # (a) translation validation: model verdict vs rustc verdict, every (type, trait) pair
    bad = []
    for ty, tr, pr in st["pairs"]:
        if pr not in "01" or "?" in ty:
            stats["undefined"] += 1
            bad.append((ty, tr, pr, None))
        elif meas.get((ty, tr)) != pr:
            stats["disagree"] += 1
            bad.append((ty, tr, pr, meas.get((ty, tr))))
        else:
            stats["agree"] += 1
    if bad:
        ex = "; ".join("%s: %s — model %s, rustc %s" % (ty, tr, {"1": "yes", "0": "no"}.get(pr, "undefined"),
                                                      {"1": "yes", "0": "no", None: "n/a"}[ms]) for ty, tr, pr, ms in bad[:3])
        broken.append("translation validation of Marker/AutoTraits.v + Types_gen.v against rustc: %d of %d (type, trait) verdicts differ; %s" % (
            len(bad), len(st["pairs"]), ex))
    st["disagreements"] = bad
    if st["assert_failed"] and not bad:
        broken.append("the assertion crate does not compile although the measured verdicts agree: %s" % "; ".join(st.get("assert_errors", [])))
    # (b) the property statement on rustc's verdicts (no model involved)
    unsound, incomplete = [], []
    for c in cells:
        if c.kind == "R" or "?" in c.rust:
            continue
        w = meas.get((c.rust, c.trait))
        cs = [meas.get((ty, tr)) for tr, ty, _ in c.conds]
        if w == "1" and "0" in cs:
            unsound.append(c)
        elif w == "0" and all(x == "1" for x in cs):
            incomplete.append(c)
    stats["unsound"], stats["incomplete"] = len(unsound), len(incomplete)
    for kind, lst in (("unsound", unsound), ("incomplete", incomplete)):
        if not lst:
            continue
        c = sorted(lst, key=_rank)[0]
        if kind == "unsound":
            tr0, ty0, _ = next(x for x in c.conds if meas.get((x[1], x[0])) == "0")
            msg = "UNSOUND marker: `%s: %s` holds (rustc, %s) although `%s: %s` does not — %d such instantiations in the matrix (wrapper %s, pointer %s, strategy %s)" % (
                c.rust, c.trait, REPO, ty0, tr0, len(lst), c.wrapper, c.pointer, c.strategy)
        else:
            msg = "INCOMPLETE marker: `%s: %s` does not hold (rustc, %s) although everything it stores is (%s) — %d such instantiations in the matrix" % (
                c.rust, c.trait, REPO, ", ".join("%s: %s" % (ty, tr) for tr, ty, _ in c.conds) or "nothing", len(lst))
        findings.append({"message": msg, "cls": None,
                         "replay": {"violation": kind, "cell": c.line, "rust_type": c.rust, "trait": c.trait,
                                    "stores": [{"type": ty, "trait": tr, "rustc": meas.get((ty, tr))} for tr, ty, _ in c.conds],
                                    "expect": "compiles" if kind == "unsound" else "is rejected",
                                    "program": _program(c, kind),
                                    "other_instances": [x.rust + ": " + x.trait for x in sorted(lst, key=_rank)[1:9]],
                                    "how": "the program is src/bin/replay.rs of a copy of /verif/harness/marker; the violation is present iff `cargo build --offline --bin replay` %s" % (
                                        "succeeds" if kind == "unsound" else "fails")}})
    return broken, findings, stats


def run(pid, cfg, tier, seed, workdir, already_broken):
    t0 = time.time()
    st = _STATE.get("quick")
    if st is None:
        with buildlib.Lock():
            build()
        st = _STATE["quick"]
    broken = []
    states = [st]
    if tier == "thorough":
        with buildlib.Lock():
            st2 = _prepare("thorough")
            broken += st2["broken"]
            # the instrumented build (cfg arc_swap_verif, used by the other harnesses) must have the same markers
            if st2.get("measured") is not None:
                rc, out = _cargo("probe", st2["gen"], st2["crate"], verif_cfg=True, target=TARGET + "-verifcfg")
                if rc != 0:
                    broken.append("probe does not build with --cfg arc_swap_verif: " + " | ".join(_errors(out)[:3]))
                else:
                    rc, out = _sh([os.path.join(TARGET + "-verifcfg", "debug", "probe")], st2["crate"])
                    m2 = {}
                    for l in out.splitlines():
                        i, a, b = l.split()
                        m2[(st2["types"][int(i)], "Send")] = a; m2[(st2["types"][int(i)], "Sync")] = b
                    diff = [k for k in m2 if m2[k] != st2["measured"].get(k)]
                    st2["verifcfg_same"] = not diff
                    if diff:
                        broken.append("with --cfg arc_swap_verif the markers differ from the shipped crate, e.g. %s: %s" % diff[0])
        states.append(st2)
    main = states[-1]
    findings, stats = [], {}
    for s in states[-1:]:
        b, f, stats = _evaluate(s)
        broken += b
        findings += f
    cells = main["cells"]
    pairs = main["pairs"]
    crate_pairs = [(ty, tr) for ty, tr, _ in pairs if "::arc_swap::" in ty]
    by_wrapper, by_pointer, by_strategy = {}, {}, {}
    pos = {"Send": 0, "Sync": 0}
    for c in cells:
        by_wrapper[c.wrapper] = by_wrapper.get(c.wrapper, 0) + 1
        if c.kind == "P":
            by_pointer[c.pointer] = by_pointer.get(c.pointer, 0) + 1
            by_strategy[c.strategy] = by_strategy.get(c.strategy, 0) + 1
        if c.pred == "1":
            pos[c.trait] += 1
    samples = []
    for c in ([x for x in cells if x.kind == "P" and x.pred == "1"][:1] + [x for x in cells if x.kind == "P" and x.pred == "0" and x.pointer == "Rc<X>"][:1]
              + [x for x in cells if x.kind == "Q"][:1] + [x for x in cells if x.kind == "R"][2:3]):
        samples.append({"wrapper": c.wrapper, "pointer": c.pointer, "strategy": c.strategy, "valuation (B=Send+Sync,S=Send only,Y=Sync only,N=neither; pointee first)": c.val,
                        "trait": c.trait, "rust_type": c.rust, "model": c.pred, "rustc": (main["measured"] or {}).get((c.rust, c.trait)),
                        "stores": ["%s: %s (model %s)" % (ty, tr, pr) for tr, ty, pr in c.conds]})
    coverage = {
        "traces_validated_against_impl": stats.get("agree", 0),
        "evaluations": len(cells),
        "distinct_nontrivial": len(set(crate_pairs)),
        "exhaustive": True,
        "rule": "one evaluation = one cell (wrapper x pointer kind x strategy x valuation of pointee and other parameters x trait) of the matrix of Marker/Matrix.v, printed by the extracted Coq code and decided by rustc on %s; %s; traces_validated = distinct (Rust type, trait) verdicts on which the model and rustc agree; distinct_nontrivial = distinct (Rust type, trait) pairs whose type mentions a type of the crate; no sampling, seed unused" % (
            REPO, "quick: pointee takes all 4 Send/Sync values, at most one other parameter deviates from Send+Sync" if main["tier"] == "quick" else "thorough: all valuations of all parameters (the space of the Coq theorems)"),
        "cells_by_kind": {"rule (one constructor over an opaque argument)": sum(1 for c in cells if c.kind == "R"),
                          "plain (all parameters opaque)": sum(1 for c in cells if c.kind == "Q"),
                          "pointer wrappers": sum(1 for c in cells if c.kind == "P")},
        "distinct_rust_types_probed": len(main["types"]),
        "type_trait_pairs": len(pairs),
        "assertions_compiled": len(main.get("linemap", {})),
        "assert_binary": main.get("assert_run", "not built"),
        "model_says_implements": pos,
        "model_vs_rustc": {k: stats.get(k, 0) for k in ("agree", "disagree", "undefined")},
        "property_on_rustc_verdicts": {"unsound_instantiations": stats.get("unsound", 0), "incomplete_instantiations": stats.get("incomplete", 0)},
        "cells_by_wrapper": by_wrapper, "cells_by_pointer_kind": by_pointer, "cells_by_strategy": by_strategy,
        "programs": 2, "disagreements_checked": stats.get("disagree", 0) + stats.get("undefined", 0),
        "samples": samples,
    }
    if tier == "thorough" and len(states) > 1:
        coverage["verif_cfg_build_has_same_markers"] = states[1].get("verifcfg_same")
    types_json = os.path.join(ROOT, "work", "types.json")
    if os.path.exists(types_json):
        tj = json.load(open(types_json))
        coverage["translated_from_source"] = {"structs": len(tj["structs"]), "explicit_send_sync_impls": len(tj["explicit_impls"]),
                                              "assoc_type_rules": len(tj["rules"]), "strategies": [s["name"] for s in tj["strategies"]],
                                              "pointer_kinds": tj["pointer_kinds"]}
    summary = "%d cells, %d (type, trait) verdicts: rustc agrees with the model on %d, differs on %d; property on rustc's verdicts: %d unsound, %d incomplete instantiations" % (
        len(cells), len(pairs), stats.get("agree", 0), stats.get("disagree", 0) + stats.get("undefined", 0), stats.get("unsound", 0), stats.get("incomplete", 0))
    search = "matrix of %d cells evaluated on rustc's verdicts (%s tier): %s" % (
        len(cells), main["tier"], "failing instantiation found" if findings else "no unsound or incomplete instantiation among them")
    return {"broken": broken, "findings": findings, "coverage": coverage, "summary": summary, "search_summary": search}


def replay(pid, cfg, path, workdir):
    d = json.load(open(path))
    if "program" not in d:
        print(json.dumps(d, indent=1))
        return 0
    crate = os.path.join(workdir, "replay-crate")
    shutil.rmtree(crate, ignore_errors=True)
    shutil.copytree(CRATE, crate, ignore=shutil.ignore_patterns("target"))
    p = os.path.join(crate, "Cargo.toml")
    txt = open(p).read().replace('path = "/repo"', 'path = "%s"' % REPO) + '\n[[bin]]\nname = "replay"\npath = "src/bin/replay.rs"\n'
    open(p, "w").write(txt)
    open(os.path.join(crate, "src", "bin", "replay.rs"), "w").write(d["program"])
    rc, out = _sh(["cargo", "build", "--offline", "--bin", "replay", "--target-dir", TARGET + "-replay"], crate,
                  env={"VERIF_MARKER_GEN": os.path.join(MWORK, "gen-quick"), "RUSTFLAGS": ""}, timeout=1200)
    compiles = rc == 0
    print(d["program"])
    print("rustc against %s: the program %s" % (REPO, "COMPILES" if compiles else "is REJECTED"))
    if not compiles:
        print("\n".join(l for l in out.splitlines() if l.startswith("error"))[:1500])
    present = compiles if d.get("violation") == "unsound" else not compiles
    print("violation (%s) %s" % (d.get("violation"), "REPRODUCED" if present else "not present"))
    return 1 if present else 0


def trusted_base(pid):
    return [
        "Coq 8.16.1 kernel incl. its vm_compute (the finite case analyses chk_cells / chk_plain / chk_protected / chk_guard_debt are vm casts checked at Qed); no native_compute; no axioms",
        "Marker/AutoTraits.v: my rendering of rustc's auto-trait rules and of std's Send/Sync impls for Arc, Rc, Weak, &, &mut, raw pointers, Option, PhantomData, ManuallyDrop, Box, dyn, fn pointers, atomics, Cell, RwLock, Mutex, MutexGuard — validated against rustc on every run on every (type, trait) pair of the matrix (rule cells + all wrapper cells), not proved",
        "translator tools/gen_types.py (tokenizer + recursive-descent reader of struct definitions, impl headers, use declarations, cfg attributes; regenerates Marker/Types_gen.v on every run; refuses on anything it cannot render); its output is double-checked by the same rustc validation (a wrong field type or a missed impl makes model and rustc disagree on some cell)",
        "Marker/Matrix.v w_spec / q_spec: the hand-written statement of what each wrapper stores (the property's meaning per wrapper); the oracle on rustc's verdicts and the exactness theorems both use it",
        "extraction: Require Extraction + ExtrOcamlBasic only (strings stay the extracted inductive, converted by coq/driver/marker_run.ml); OCaml 4.13",
        "rustc 1.95 (the judge of the translation validation) and harness/marker: inherent-associated-const probe, ambiguous-impl negative assertions, UserPtr (a PhantomData newtype implementing RefCnt), leaf types u32 / Cell<u32> / MutexGuard<'static,u32> / *const u8 standing for the four Send/Sync valuations",
    ]


def assumptions(pid):
    return [
        "the theorems are about the auto-trait model over the translated definitions; they transfer to /repo as far as rustc agrees with the model on the matrix (checked exhaustively on the quick sub-matrix each quick run, on the full theorem space each thorough run)",
        "parametricity of auto traits: a type parameter influences Send/Sync of a wrapper only through its own Send/Sync (so four leaf types cover all pointees; user-defined RefCnt types are covered by an opaque pointer kind)",
        "configuration: features weak + internal-test-strategies on (superset of types), cfg(test)/miri/arc_swap_verif off; the experimental-thread-local variant is out of scope",
        "only types nameable from another crate can be put to rustc directly: HybridProtection and Debt are validated through Guard<P, S>",
    ]
