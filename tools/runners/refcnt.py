"""Runner for C15 (pointer-kind laws).

Ties coq/Seq/RefCntModel.v to /repo: generated operation sequences are executed
  (a) by harness/refcnt on the REAL `arc_swap::RefCnt` methods / `ArcSwapAny` containers over real
      Arc/Rc/Weak/Option values and seven pointee layouts,
  (b) by the extracted Coq register machine (coq/Seq/RefCntMachine.v, driver coq/driver/refcnt_run.ml),
  (c) by the oracle below: an independent restatement of the property text as count deltas
      (round trip 0, as_ptr 0, inc +1, dec -1, empty <-> null, Weak never strong),
and the three outputs are compared line by line (one line after every operation: every register's
object identity, strong/weak counts as reported by std, null-ness, destructions so far).
  (a) != (c): the implementation violates the property on a concrete input  -> finding (replayable)
  (a) != (b): the model no longer describes the code                          -> broken
"""
import os, sys, json, time, random, hashlib, subprocess, shutil, collections
HERE = os.path.dirname(os.path.abspath(__file__))
TOOLS = os.path.dirname(HERE)
ROOT = os.path.dirname(TOOLS)
sys.path.insert(0, TOOLS)
import buildlib

COQ = os.path.join(ROOT, "coq")
CRATE = os.path.join(ROOT, "harness", "refcnt")
MODEL_DIR = os.path.join(COQ, "build", "refcnt")
MODEL_EXE = os.path.join(MODEL_DIR, "refcnt_run")
NREG, NCON = 4, 2

# kind name -> (number of Option layers, strong?, arc family?)
KINDS = collections.OrderedDict([
    ("arc", (0, True, True)), ("rc", (0, True, False)),
    ("weak", (0, False, True)), ("rcweak", (0, False, False)),
    ("oarc", (1, True, True)), ("orc", (1, True, False)),
    ("ooarc", (2, True, True)), ("oorc", (2, True, False)),
    ("oweak", (1, False, True)), ("orcweak", (1, False, False)),
])
RUST_NAME = {"arc": "Arc<T>", "rc": "Rc<T>", "weak": "sync::Weak<T>", "rcweak": "rc::Weak<T>",
             "oarc": "Option<Arc<T>>", "orc": "Option<Rc<T>>", "ooarc": "Option<Option<Arc<T>>>",
             "oorc": "Option<Option<Rc<T>>>", "oweak": "Option<sync::Weak<T>>", "orcweak": "Option<rc::Weak<T>>"}
# pointee name -> destructions observable?
TYPES = collections.OrderedDict([("unit", 0), ("u8", 0), ("usize", 0), ("string", 0), ("al64", 1), ("zd", 1), ("sd", 1)])
TRAIT_OPS = ("into", "asp", "from", "inc", "dec")
CONT_OPS = ("cnew", "clf", "clg", "cst", "csw", "cin", "cdr")

_harness_exe = [None]


def _repo():
    return os.environ.get("VERIF_REPO", "/repo")


# ------------------------------------------------------------------ build
def coq_targets():
    return ["Seq/RefCntExtract.vo"]


def build():
    broken = []
    # extracted model + OCaml driver
    ml = os.path.join(COQ, "extract", "refcnt_model.ml")
    if not os.path.exists(ml):
        # the .vo is there but the extraction output was removed: extract again
        for ext in (".vo", ".vos", ".vok", ".glob"):
            try:
                os.remove(os.path.join(COQ, "Seq", "RefCntExtract" + ext))
            except OSError:
                pass
        buildlib.coq_build(["Seq/RefCntExtract.vo"])
    srcs = [ml, ml + "i", os.path.join(COQ, "driver", "refcnt_run.ml")]
    if not all(os.path.exists(s) for s in srcs):
        broken.append("extracted C15 model is missing (Seq/RefCntExtract.v did not produce extract/refcnt_model.ml)")
    else:
        os.makedirs(MODEL_DIR, exist_ok=True)
        if not (os.path.exists(MODEL_EXE) and all(os.path.getmtime(s) <= os.path.getmtime(MODEL_EXE) for s in srcs)):
            for s in srcs:
                shutil.copy(s, MODEL_DIR)
            rc, out = buildlib.sh("ocamlfind ocamlopt -O2 -w -a refcnt_model.mli refcnt_model.ml refcnt_run.ml -o refcnt_run",
                                  cwd=MODEL_DIR, timeout=600)
            if rc != 0:
                broken.append("extracted C15 model driver does not build: " + out[-400:])
    # Rust harness against the current working tree of the crate
    repo = _repo()
    crate, tdir = CRATE, os.path.join(ROOT, "harness", "target", "refcnt")
    if os.path.abspath(repo) != "/repo":
        tag = hashlib.sha1(os.path.abspath(repo).encode()).hexdigest()[:8]
        crate = os.path.join(buildlib.WORK, "refcnt-crate-" + tag)
        tdir = os.path.join(ROOT, "harness", "target", "refcnt-" + tag)
        shutil.rmtree(crate, ignore_errors=True)
        shutil.copytree(CRATE, crate)
        ct = open(os.path.join(crate, "Cargo.toml")).read().replace('path = "/repo"', 'path = "%s"' % os.path.abspath(repo))
        open(os.path.join(crate, "Cargo.toml"), "w").write(ct)
    env = dict(buildlib.ENV, RUSTFLAGS="")     # the crate as users build it (no cfg arc_swap_verif)
    rc, out = buildlib.sh(["cargo", "build", "--offline", "--target-dir", tdir], cwd=crate, timeout=3000, env=env)
    os.makedirs(buildlib.WORK, exist_ok=True)
    open(os.path.join(buildlib.WORK, "refcnt_build.log"), "w").write(out)
    _harness_exe[0] = os.path.join(tdir, "debug", "refcnt")
    if rc != 0:
        errs = [l for l in out.splitlines() if l.startswith("error")]
        broken.append("harness/refcnt does not build against %s (the RefCnt trait or ArcSwapAny API changed; correspondence cannot run): %s"
                      % (repo, " | ".join(errs[:4])))
    return broken


def trusted_base(pid):
    return [
        "Coq 8.16.1 kernel (coqc; vm_compute only inside Examples); no native_compute",
        "stdpp 1.8.0 (gmap, numbers, option) — no axioms",
        "hand transliteration of src/ref_cnt.rs:73-176 and src/weak.rs:8-56 into coq/Seq/RefCntModel.v (into_ptr/as_ptr/from_ptr/inc/dec per impl; file:line cited), checked against the code by the differential run, not by a translator",
        "model of std Arc/Rc/Weak (strong, weak incl. the implicit one, data alive; raw-pointer API is pointer arithmetic without access; Weak::new = usize::MAX sentinel) — validated by the same run through Arc::strong_count/weak_count, Weak::strong_count/weak_count/upgrade",
        "extraction: Require Extraction + ExtrOcamlBasic only (no Extract Constant), OCaml 4.13 driver coq/driver/refcnt_run.ml (parsing/printing only)",
        "harness/refcnt (register machine over the real types, naming of addresses by creation index), tools/runners/refcnt.py (generator, oracle, exact line diff, no wildcards)",
        "layout facts sampled, not proved: the data address inside ArcInner/RcBox is unique per live object also for zero-sized T, aligned for T, never 0, 3 or usize::MAX",
    ]


def assumptions(pid):
    return [
        "the theorems are about the model of std in coq/Seq/RefCntModel.v; they transfer to /repo + the installed std as far as the differential run reaches (sequences counted in coverage)",
        "the allocator returns an address that is not live, not 0, not 3 (Debt::NONE) and not usize::MAX (hypothesis fresh_addr / wf in the statements)",
        "pointee T: Sized; nothing in the impls depends on T, the run samples (), u8, usize, String, a 64-aligned struct, a zero-sized type with Drop, a heap-owning type with Drop",
        "single-threaded: atomicity of Arc's counters and the concurrent protocol of the container are the subject of C01-C13, not of C15",
    ]


# ------------------------------------------------------------------ oracle (property text as count deltas)
class Oracle:
    """Independent of the Coq model.  State: registers as in the harness; per object the number of
    strong and of weak references that exist.  Each law of the property text is one method."""

    def __init__(self, kind, track):
        self.kind = kind
        self.nopt, self.strong, _ = KINDS[kind]
        self.nullable = kind not in ("arc", "rc")
        self.track = track
        self.A = [None] * NREG          # object index
        self.W = [None] * NREG          # object index or "dg"
        self.V = [None] * NREG          # (number of Some layers, base) ; base: "N" | ("s", o) | ("w", o|"dg")
        self.P = [None] * NREG          # "null" | object index
        self.C = [None] * NCON          # "null" | object index
        self.objs = []                  # [strong, weak]
        self.drops = 0

    # --- helpers
    @staticmethod
    def target(v):
        b = v[1]
        if b == "N" or b[1] == "dg":
            return "null"
        return b[1]

    def value_of(self, raw):
        """What from_ptr must give back: the same object, or the kind's empty value for null."""
        if raw == "null":
            return (0, "N") if self.nopt > 0 else (0, ("w", "dg"))
        return (self.nopt, ("s" if self.strong else "w", raw))

    def up(self, t):        # one more reference of the kind's count
        if t != "null":
            self.objs[t][0 if self.strong else 1] += 1

    def down(self, t):      # one reference less; the pointee dies with the last strong one
        if t != "null":
            self.release(t, self.strong)

    def release(self, o, strong):
        if strong:
            self.objs[o][0] -= 1
            if self.objs[o][0] == 0:
                self.drops += 1
        else:
            self.objs[o][1] -= 1

    def state_class(self, t):
        if t == "null":
            return "empty"
        s, w = self.objs[t]
        if s == 0:
            return "dropped"
        return ("unique" if s == 1 else "shared") + ("+weak" if w > 0 else "")

    # --- one operation; returns (result token, state class touched by a trait/container op or None)
    def step(self, name, a):
        A, W, V, P, C = self.A, self.W, self.V, self.P, self.C
        free = lambda r, i: i < len(r) and r[i] is None
        full = lambda r, i: i < len(r) and r[i] is not None
        inv = ("inv", None)
        if name == "new":
            if not free(A, a[0]): return inv
            self.objs.append([1, 0]); A[a[0]] = len(self.objs) - 1
        elif name == "acl":
            if not (full(A, a[0]) and free(A, a[1])): return inv
            self.objs[A[a[0]]][0] += 1; A[a[1]] = A[a[0]]
        elif name == "adr":
            if not full(A, a[0]): return inv
            self.release(A[a[0]], True); A[a[0]] = None
        elif name == "adn":
            if not (full(A, a[0]) and free(W, a[1])): return inv
            self.objs[A[a[0]]][1] += 1; W[a[1]] = A[a[0]]
        elif name == "wup":
            if not (full(W, a[0]) and free(A, a[1])): return inv
            o = W[a[0]]
            if o == "dg" or self.objs[o][0] == 0:
                return ("none", None)
            self.objs[o][0] += 1; A[a[1]] = o
            return ("some", None)
        elif name == "wnw":
            if not free(W, a[0]): return inv
            W[a[0]] = "dg"
        elif name == "wcl":
            if not (full(W, a[0]) and free(W, a[1])): return inv
            if W[a[0]] != "dg": self.objs[W[a[0]]][1] += 1
            W[a[1]] = W[a[0]]
        elif name == "wdr":
            if not full(W, a[0]): return inv
            if W[a[0]] != "dg": self.release(W[a[0]], False)
            W[a[0]] = None
        elif name == "vmk":
            if not free(V, a[1]): return inv
            if self.strong:
                if not full(A, a[0]): return inv
                V[a[1]] = (self.nopt, ("s", A[a[0]])); A[a[0]] = None
            else:
                if not full(W, a[0]): return inv
                V[a[1]] = (self.nopt, ("w", W[a[0]])); W[a[0]] = None
        elif name == "vem":
            if not free(V, a[1]): return inv
            d = a[0]
            if d < self.nopt: V[a[1]] = (d, "N")
            elif d == self.nopt and not self.strong: V[a[1]] = (d, ("w", "dg"))
            else: return inv
        elif name == "vcl":
            if not (full(V, a[0]) and free(V, a[1])): return inv
            self.up(self.target(V[a[0]])); V[a[1]] = V[a[0]]
        elif name == "vdr":
            if not full(V, a[0]): return inv
            self.down(self.target(V[a[0]])); V[a[0]] = None
        elif name == "vun":
            dest = A if self.strong else W
            if not (full(V, a[0]) and free(dest, a[1])): return inv
            b = V[a[0]][1]; V[a[0]] = None
            if b != "N": dest[a[1]] = b[1]
        # ---- the laws
        elif name == "into":        # conversion changes no count; empty <-> null
            if not (full(V, a[0]) and free(P, a[1])): return inv
            t = self.target(V[a[0]]); P[a[1]] = t; V[a[0]] = None
            return ("ok", self.state_class(t))
        elif name == "asp":         # borrowing gives the pointer conversion would give, changes nothing
            if not full(V, a[0]): return inv
            t = self.target(V[a[0]])
            return ("r=null" if t == "null" else "r=@%d" % t, self.state_class(t))
        elif name == "from":        # ... and back: the same object, no count changed
            if not (full(P, a[0]) and free(V, a[1])): return inv
            t = P[a[0]]; V[a[1]] = self.value_of(t); P[a[0]] = None
            return ("ok", self.state_class(t))
        elif name == "inc":         # exactly one more reference; null stays null and is not counted
            if not (full(V, a[0]) and free(P, a[1])): return inv
            t = self.target(V[a[0]]); c = self.state_class(t); self.up(t); P[a[1]] = t
            return ("ok", c)
        elif name == "dec":         # exactly one less
            if not full(P, a[0]): return inv
            t = P[a[0]]; c = self.state_class(t); self.down(t); P[a[0]] = None
            return ("ok", c)
        elif name == "pnull":
            if not (self.nullable and free(P, a[0])): return inv
            P[a[0]] = "null"
        # ---- containers: new/into_inner/swap move, load_full adds one, store/drop release one
        elif name == "cnew":
            if not (full(V, a[1]) and free(C, a[0])): return inv
            t = self.target(V[a[1]]); C[a[0]] = t; V[a[1]] = None
            return ("ok", self.state_class(t))
        elif name in ("clf", "clg"):
            if not (full(C, a[0]) and free(V, a[1])): return inv
            t = C[a[0]]; c = self.state_class(t); self.up(t); V[a[1]] = self.value_of(t)
            return ("ok", c)
        elif name == "cst":
            if not (full(C, a[0]) and full(V, a[1])): return inv
            old = C[a[0]]; c = self.state_class(old); C[a[0]] = self.target(V[a[1]]); V[a[1]] = None; self.down(old)
            return ("ok", c)
        elif name == "csw":
            if not (full(C, a[0]) and full(V, a[1]) and free(V, a[2])): return inv
            old = C[a[0]]; C[a[0]] = self.target(V[a[1]]); V[a[1]] = None; V[a[2]] = self.value_of(old)
            return ("ok", self.state_class(old))
        elif name == "cin":
            if not (full(C, a[0]) and free(V, a[1])): return inv
            t = C[a[0]]; C[a[0]] = None; V[a[1]] = self.value_of(t)
            return ("ok", self.state_class(t))
        elif name == "cdr":
            if not full(C, a[0]): return inv
            t = C[a[0]]; c = self.state_class(t); C[a[0]] = None; self.down(t)
            return ("ok", c)
        else:
            raise ValueError(name)
        return ("ok", None)

    # --- expected observation
    def show_s(self, o):
        return "@%d(%d,%d)" % (o, self.objs[o][0], self.objs[o][1])

    def show_w(self, o):
        if o == "dg":
            return "~dg"
        s, w = self.objs[o]
        # Weak::weak_count is documented to be 0 once no strong pointer remains
        return "~%d(%d,%d,%d)" % (o, s, w if s > 0 else 0, 1 if s > 0 else 0)

    def show_v(self, v):
        n, b = v
        inner = "N" if b == "N" else (self.show_s(b[1]) if b[0] == "s" else self.show_w(b[1]))
        return "S(" * n + inner + ")" * n

    def line(self, n, res):
        f = lambda r, sh: " ".join("-" if x is None else sh(x) for x in r)
        return "%d %s A[%s] W[%s] V[%s] P[%s] d=%s" % (
            n, res, f(self.A, self.show_s), f(self.W, self.show_w), f(self.V, self.show_v),
            f(self.P, lambda p: "null" if p == "null" else "@%d" % p),
            str(self.drops) if self.track else "-")


# ------------------------------------------------------------------ generator
def gen_sequence(rng, kind, ty, length):
    """Structured, mostly valid: each operation is drawn among those enabled in the oracle's state
    (about 2% are drawn blindly and may be refused with `inv` by all three sides); a clean-up tail
    releases everything, so that the last line shows every pointee destroyed exactly once."""
    o = Oracle(kind, TYPES[ty])
    ops, expect, classes = [], [], []
    rr = lambda: rng.randrange(NREG)

    def emit(name, a):
        res, cls = o.step(name, list(a))
        ops.append((name, list(a)))
        expect.append(o.line(len(ops) - 1, res))
        classes.append((name, cls, res))

    def pick(r, want_full):
        idx = [i for i in range(len(r)) if (r[i] is not None) == want_full]
        return rng.choice(idx) if idx else None

    for _ in range(length):
        if rng.random() < 0.02:
            name = rng.choice(["acl", "adr", "adn", "wup", "wcl", "wdr", "vmk", "vcl", "vdr", "vun", "into", "asp", "from",
                               "inc", "dec", "cnew", "clf", "cst", "cin", "cdr", "vem", "pnull"])
            n_args = 1 if name in ("adr", "wdr", "vdr", "asp", "dec", "cdr", "pnull") else 2
            a = [rr() for _ in range(n_args)]
            if name in ("cnew", "clf", "cst", "cin", "cdr"): a[0] = rng.randrange(NCON)
            if name == "vem": a[0] = rng.randrange(4)
            emit(name, a)
            continue
        cand = []
        def prefer(r, live):
            """a full register, one that refers to an object three times out of four"""
            idx = [i for i in range(len(r)) if r[i] is not None]
            good = [i for i in idx if live(r[i])]
            if good and rng.random() < 0.75:
                return rng.choice(good)
            return rng.choice(idx) if idx else None
        fa, ea = pick(o.A, True), pick(o.A, False)
        fw, ew = prefer(o.W, lambda w: w != "dg"), pick(o.W, False)
        fv, ev = prefer(o.V, lambda v: o.target(v) != "null"), pick(o.V, False)
        fp, ep = prefer(o.P, lambda p: p != "null"), pick(o.P, False)
        fc, ec = prefer(o.C, lambda c: c != "null"), pick(o.C, False)
        if ea is not None: cand.append((3 if any(x is not None for x in o.A) else 9, "new", [ea]))
        if fa is not None and ea is not None: cand.append((2, "acl", [fa, ea]))
        if fa is not None: cand.append((2, "adr", [fa]))
        if fa is not None and ew is not None: cand.append((3 if o.strong else 7, "adn", [fa, ew]))
        if fw is not None and ea is not None: cand.append((2, "wup", [fw, ea]))
        if ew is not None: cand.append((1, "wnw", [ew]))
        if fw is not None and ew is not None: cand.append((1, "wcl", [fw, ew]))
        if fw is not None: cand.append((1, "wdr", [fw]))
        src = fa if o.strong else fw
        if src is not None and ev is not None: cand.append((6, "vmk", [src, ev]))
        if ev is not None and o.nullable:
            maxd = o.nopt - 1 if o.strong else o.nopt
            cand.append((1, "vem", [rng.randrange(maxd + 1), ev]))
        if fv is not None and ev is not None: cand.append((3, "vcl", [fv, ev]))
        if fv is not None: cand.append((2, "vdr", [fv]))
        dest = ea if o.strong else ew
        if fv is not None and dest is not None: cand.append((2, "vun", [fv, dest]))
        if fv is not None and ep is not None: cand.append((7, "into", [fv, ep]))
        if fv is not None: cand.append((5, "asp", [fv]))
        if fp is not None and ev is not None: cand.append((7, "from", [fp, ev]))
        if fv is not None and ep is not None: cand.append((7, "inc", [fv, ep]))
        if fp is not None: cand.append((6, "dec", [fp]))
        if o.nullable and ep is not None: cand.append((1, "pnull", [ep]))
        if fv is not None and ec is not None: cand.append((4, "cnew", [ec, fv]))
        if fc is not None and ev is not None:
            cand.append((3, "clf", [fc, ev])); cand.append((3, "clg", [fc, ev])); cand.append((2, "cin", [fc, ev]))
        if fc is not None and fv is not None:
            cand.append((3, "cst", [fc, fv]))
            ev2 = [i for i in range(NREG) if o.V[i] is None]
            if ev2: cand.append((3, "csw", [fc, fv, rng.choice(ev2)]))
        if fc is not None: cand.append((1, "cdr", [fc]))
        tot = sum(w for w, _, _ in cand)
        x = rng.random() * tot
        for w, name, a in cand:
            x -= w
            if x <= 0:
                emit(name, a)
                break
    # clean-up tail
    for c in range(NCON):
        if o.C[c] is not None: emit("cdr", [c])
    for i in range(NREG):
        if o.P[i] is not None: emit("dec", [i])
    for i in range(NREG):
        if o.V[i] is not None: emit("vdr", [i])
    for i in range(NREG):
        if o.W[i] is not None: emit("wdr", [i])
    for i in range(NREG):
        if o.A[i] is not None: emit("adr", [i])
    leaked = [i for i, (s, w) in enumerate(o.objs) if s != 0 or w != 0]
    assert not leaked, "generator/oracle bug: clean-up left references"
    return ops, expect, classes


def seq_text(sid, kind, ty, ops):
    return "seq %s %s %s %d\n" % (sid, kind, ty, TYPES[ty]) + "".join("%s %s\n" % (n, " ".join(map(str, a))) for n, a in ops) + "end\n"


def corpus_sequences():
    """Hand-written sequences run first at every tier (the crate's own weak.rs tests, the nested
    collapse, every empty form through every trait method, unique/shared/dropped targets)."""
    out = []
    def add(kind, ty, ops):
        out.append((kind, ty, [(o.split()[0], [int(x) for x in o.split()[1:]]) for o in ops]))
    for ty in TYPES:
        for kind, (nopt, strong, _) in KINDS.items():
            src = "new 0", ("acl 0 1" if strong else "adn 0 1")
            mk = "vmk 1 0"
            # unique/shared target: round trip, borrow, inc/dec, container round trip
            add(kind, ty, [src[0], src[1], mk, "asp 0", "into 0 0", "from 0 1", "inc 1 1", "asp 1", "dec 1",
                           "cnew 0 1", "clf 0 2", "clg 0 3", "vdr 2", "vdr 3", "cin 0 0", "vdr 0", "adr 0"])
            if kind not in ("arc", "rc"):
                maxd = nopt - 1 if strong else nopt
                for d in range(maxd + 1):
                    # every empty form through every method, never touching anything
                    add(kind, ty, ["new 0", "adn 0 0", "vem %d 0" % d, "asp 0", "inc 0 0", "dec 0", "vcl 0 1", "into 0 1", "from 1 2",
                                   "pnull 0", "dec 0", "pnull 2", "from 2 3", "cnew 0 1", "clf 0 0", "vdr 0", "cst 0 2", "csw 0 3 0",
                                   "cin 0 1", "vdr 0", "vdr 1", "wdr 0", "adr 0"])
            if not strong:
                # weak.rs there_and_back / reset / destroy: a container of Weak does not keep the target alive
                add(kind, ty, ["new 0", "adn 0 0", "vmk 0 0", "cnew 0 0", "clf 0 1", "vun 1 1", "wup 1 1", "adr 1", "wdr 1",
                               "adr 0", "clf 0 2", "vun 2 2", "wup 2 2", "wdr 2", "cdr 0"])
                add(kind, ty, ["new 0", "adn 0 0", "vmk 0 0", "cnew 0 0", "wnw 1", "vmk 1 1", "cst 0 1", "clg 0 2", "vdr 2", "cdr 0", "adr 0"])
                # target already dropped: trait methods on a Weak whose pointee is gone
                add(kind, ty, ["new 0", "adn 0 0", "adr 0", "vmk 0 0", "asp 0", "inc 0 0", "into 0 1", "dec 0", "from 1 1", "vdr 1"])
    return out


# ------------------------------------------------------------------ running
def _parse(text):
    """seq id -> (lines, complete?)"""
    res, cur, sid = {}, None, None
    for l in text.splitlines():
        if l.startswith("seq "):
            sid = l.split()[1]; cur = []; res[sid] = [cur, False]
        elif l.startswith("end "):
            if sid is not None: res[sid][1] = True
            sid = None
        elif sid is not None:
            cur.append(l)
    return res


MAX_RESTARTS = 300


def run_impl(path, n_seqs, workdir):
    """Runs the harness; a crash is attributed to the sequence being executed and the run goes on
    with the next one.  Returns (parsed, crashes[(index, how)], first index never executed or None)"""
    exe = _harness_exe[0] or os.path.join(ROOT, "harness", "target", "refcnt", "debug", "refcnt")
    parsed, crashes, first, restarts = {}, [], 0, 0
    while first < n_seqs:
        if restarts >= MAX_RESTARTS:
            return parsed, crashes, first
        try:
            p = subprocess.run([exe, path, str(first)], stdout=subprocess.PIPE, stderr=subprocess.PIPE, timeout=600)
            out, rc, err = p.stdout.decode(errors="replace"), p.returncode, p.stderr.decode(errors="replace")[-300:]
        except subprocess.TimeoutExpired as e:
            out, rc, err = (e.stdout or b"").decode(errors="replace"), -999, "timeout"
        part = _parse(out)
        parsed.update(part)
        if rc == 0 and part and max(int(k) for k in part) == n_seqs - 1 and all(v[1] for v in part.values()):
            break
        started = [int(k) for k in part]
        bad = max(started) if started else first
        crashes.append((bad, "exit status %s %s" % (rc, " ".join(err.split())[-200:])))
        first = bad + 1
        restarts += 1
    return parsed, crashes, None


def run_model(path):
    p = subprocess.run([MODEL_EXE, path], stdout=subprocess.PIPE, stderr=subprocess.PIPE, timeout=600)
    return _parse(p.stdout.decode(errors="replace")), p.returncode, p.stderr.decode(errors="replace")[-300:]


LAW = {
    "into": "into_ptr must change no count and map exactly the empty values to null",
    "asp": "as_ptr must equal what into_ptr would give and change nothing",
    "from": "from_ptr(into_ptr(x)) must give back the same object with unchanged strong and weak counts (null -> the empty value)",
    "inc": "inc must add exactly one reference of the kind's count (none for an empty value) and return the raw pointer",
    "dec": "dec must remove exactly one reference (none for null), destroying the pointee exactly when the strong count reaches 0",
    "cnew": "ArcSwapAny::new must move the value in without changing a count",
    "clf": "load_full must return the stored object with exactly one more reference",
    "clg": "Guard::into_inner(load()) must return the stored object with exactly one more reference",
    "cst": "store must release exactly one reference of the replaced value and none of the new one",
    "csw": "swap must hand back the replaced object with unchanged counts",
    "cin": "into_inner must hand back the stored object with unchanged counts",
    "cdr": "dropping the container must release exactly the one stored reference",
}


def execute(seqs, workdir, tag):
    """seqs: list of (kind, ty, ops).  Returns dict with per-sequence verdicts."""
    os.makedirs(workdir, exist_ok=True)
    path = os.path.join(workdir, tag + ".seq")
    expects, classes_all = [], []
    with open(path, "w") as f:
        for i, (kind, ty, ops) in enumerate(seqs):
            f.write(seq_text(i, kind, ty, ops))
            o = Oracle(kind, TYPES[ty])
            ex, cl = [], []
            for n, (name, a) in enumerate(ops):
                res, c = o.step(name, list(a))
                ex.append(o.line(n, res)); cl.append((name, c, res))
            expects.append(ex); classes_all.append(cl)
    impl, crashes, not_run_from = run_impl(path, len(seqs), workdir)
    model, mrc, merr = run_model(path)
    open(os.path.join(workdir, tag + ".impl"), "w").write("".join("seq %s\n%s\n" % (k, "\n".join(v[0])) for k, v in impl.items()))
    findings, diverged, tool_bugs, agree = [], [], [], 0
    crashed = dict(crashes)
    for i, (kind, ty, ops) in enumerate(seqs):
        if not_run_from is not None and i >= not_run_from:
            break
        k = str(i)
        il = impl.get(k, [[], False])[0]
        ml = model.get(k, [[], False])[0]
        ex = expects[i]
        text = seq_text(i, kind, ty, ops)
        # (b) vs (c): my own two descriptions must agree, else the tooling is wrong
        if ml != ex:
            j = next((x for x in range(min(len(ml), len(ex))) if ml[x] != ex[x]), min(len(ml), len(ex)))
            tool_bugs.append("sequence %d (%s over %s) op %d: model `%s` oracle `%s`" % (
                i, kind, ty, j, ml[j] if j < len(ml) else "<missing>", ex[j] if j < len(ex) else "<missing>"))
        # (a) vs (c): the property itself
        jo = next((x for x in range(min(len(il), len(ex))) if il[x] != ex[x]), None)
        if jo is None and len(il) < len(ex):
            jo = len(il)
        if jo is not None:
            name = ops[jo][0] if jo < len(ops) else "?"
            # the law that broke is the one of the last trait/container operation up to the mismatch
            blame = next((ops[x][0] for x in range(min(jo, len(ops) - 1), -1, -1) if ops[x][0] in LAW), name)
            how = "the process running the real methods died (%s)" % crashed[i] if (i in crashed and jo >= len(il) - 1) else \
                  "observed `%s`, the property requires `%s`" % (il[jo] if jo < len(il) else "<nothing>", ex[jo])
            findings.append({
                "message": "%s over pointee %s: after operation %d (`%s %s`) %s — %s" % (
                    RUST_NAME[kind], ty, jo, name, " ".join(map(str, ops[jo][1])) if jo < len(ops) else "", how,
                    LAW.get(blame, "counts and identities must follow the std semantics")),
                "cls": None,
                "replay": {"sequence": seq_text(0, kind, ty, ops[: jo + 1]), "full_sequence": text, "failing_op_index": jo, "expected_by_property": ex[: jo + 1][-3:],
                           "observed": il[: jo + 1][-3:], "model": ml[: jo + 1][-3:],
                           "crash": crashed.get(i)},
            })
        # (a) vs (b): correspondence
        jm = next((x for x in range(min(len(il), len(ml))) if il[x] != ml[x]), None)
        if jm is None and len(il) != len(ml):
            jm = min(len(il), len(ml))
        if jm is not None:
            diverged.append((i, kind, ty, jm, il[jm] if jm < len(il) else "<missing>", ml[jm] if jm < len(ml) else "<missing>"))
        elif jo is None:
            agree += 1
    return {"path": path, "findings": findings, "diverged": diverged, "tool_bugs": tool_bugs, "agree": agree,
            "crashes": crashes, "classes": classes_all, "not_run": 0 if not_run_from is None else len(seqs) - not_run_from, "model_rc": mrc, "model_err": merr,
            "impl": impl, "lines": sum(len(e) for e in expects)}


def run(pid, cfg, tier, seed, workdir, already_broken):
    t0 = time.time()
    rng = random.Random(seed * 1000003 + 15)
    seqs = list(corpus_sequences())
    n_corpus = len(seqs)
    n_rand = 900 if tier == "quick" else 30000
    if already_broken and tier == "quick":
        n_rand = 6000          # intensified search for a failing input
    kinds, types = list(KINDS), list(TYPES)
    for i in range(n_rand):
        kind, ty = kinds[i % len(kinds)], types[(i // len(kinds)) % len(types)]
        ops, _, _ = gen_sequence(rng, kind, ty, rng.randrange(8, 40))
        seqs.append((kind, ty, ops))
    # shards keep memory and the blast radius of a crash small
    shard = 3000
    agg = {"findings": [], "diverged": [], "tool_bugs": [], "agree": 0, "crashes": [], "lines": 0, "not_run": 0}
    dist_kind = collections.Counter(); dist_state = collections.Counter(); dist_ty = collections.Counter()
    digests = set(); samples = []
    model_fail = None
    for s0 in range(0, len(seqs), shard):
        part = seqs[s0:s0 + shard]
        r = execute(part, workdir, "shard%03d" % (s0 // shard))
        for k in ("findings", "diverged", "tool_bugs", "crashes"):
            agg[k] += r[k]
        agg["agree"] += r["agree"]; agg["lines"] += r["lines"]; agg["not_run"] += r["not_run"]
        if r["model_rc"] != 0 and model_fail is None:
            model_fail = r["model_err"]
        for (kind, ty, ops), cl in zip(part, r["classes"]):
            nontrivial = False
            for name, c, res in cl:
                if c is not None and res != "inv":
                    dist_kind[kind + ":" + name] += 1
                    dist_state[("strong" if KINDS[kind][1] else "weak") + ":" + name + ":" + c] += 1
                    nontrivial = True
            if nontrivial:
                dist_ty[ty] += 1
                digests.add(hashlib.sha1(seq_text(0, kind, ty, ops).encode()).hexdigest())
        if not samples:
            for idx in (0, n_corpus, n_corpus + 1):
                if idx < len(part):
                    kind, ty, ops = part[idx]
                    samples.append({"kind": RUST_NAME[kind], "pointee": ty,
                                    "sequence": seq_text(idx, kind, ty, ops).splitlines(),
                                    "observed_on_impl": r["impl"].get(str(idx), [[], False])[0][:60]})
        if agg["findings"] and not already_broken and tier == "quick":
            break
    broken = []
    if model_fail is not None:
        broken.append("extracted model driver failed: " + model_fail)
    if agg["not_run"]:
        broken.append("harness/refcnt died more than %d times; %d sequences were not executed" % (MAX_RESTARTS, agg["not_run"]))
    if agg["tool_bugs"]:
        broken.append("C15 model and the runner's oracle disagree with each other (%d sequences; first: %s)" % (
            len(agg["tool_bugs"]), agg["tool_bugs"][0]))
    if agg["diverged"]:
        i, kind, ty, j, il, ml = agg["diverged"][0]
        broken.append("differential run model<->code: %d of %d sequences diverge; first: sequence %d (%s over %s) line %d impl `%s` model `%s`" % (
            len(agg["diverged"]), len(seqs), i, RUST_NAME[kind], ty, j, il, ml))
    by_kind = collections.Counter()
    for k, v in dist_kind.items():
        by_kind[k.split(":")[0]] += v
    coverage = {
        "traces_validated_against_impl": agg["agree"],
        "evaluations": len(seqs),
        "distinct_nontrivial": len(digests),
        "rule": "one case = one operation sequence (hand-written corpus of %d + generated from the seed: kind and pointee round-robin, "
                "8-40 operations drawn among those enabled, 2%% blind, clean-up tail) executed on the real trait impls/ArcSwapAny, on the "
                "extracted Coq machine and on the oracle; every line (one per operation) compared exactly. non-trivial = at least one "
                "RefCnt method or container operation was executed (not refused); distinct = distinct sha1 of (kind, pointee, operations)" % n_corpus,
        "lines_compared": agg["lines"],
        "trait_and_container_ops_by_kind": dict(sorted(by_kind.items())),
        "ops_by_kind_and_method": dict(sorted(dist_kind.items())),
        "target_state_when_method_ran": dict(sorted(dist_state.items())),
        "sequences_by_pointee": dict(sorted(dist_ty.items())),
        "harness_crashes": len(agg["crashes"]),
        "samples": samples,
    }
    summary = "%d/%d sequences agree (impl = model = oracle), %d lines, %d distinct non-trivial, %d kinds x %d pointees" % (
        agg["agree"], len(seqs), agg["lines"], len(digests), len(KINDS), len(TYPES))
    search = "%d sequences (%d corpus + %d generated, seed %d) in %.0fs; %d oracle violations, %d crashes" % (
        len(seqs), n_corpus, n_rand, seed, time.time() - t0, len(agg["findings"]), len(agg["crashes"]))
    # smallest failing input first
    fs = sorted(agg["findings"], key=lambda f: (f["replay"]["crash"] is not None, f["replay"]["failing_op_index"],
                                                len(f["replay"]["sequence"])))[:3]
    return {"broken": broken, "findings": fs, "coverage": coverage, "summary": summary, "search_summary": search}


def replay(pid, cfg, path, workdir):
    d = json.load(open(path))
    if "sequence" not in d:
        print(json.dumps(d, indent=1))
        return 0
    b = build()
    if b:
        print("\n".join(b))
        return 2
    lines = d["sequence"].splitlines()
    hdr = lines[0].split()
    kind, ty = hdr[2], hdr[3]
    ops = [(l.split()[0], [int(x) for x in l.split()[1:]]) for l in lines[1:] if l and l != "end"]
    r = execute([(kind, ty, ops)], workdir, "replay")
    o = Oracle(kind, TYPES[ty])
    il = r["impl"].get("0", [[], False])[0]
    print("sequence: %s over %s" % (RUST_NAME[kind], ty))
    for n, (name, a) in enumerate(ops):
        res, _ = o.step(name, list(a))
        ex = o.line(n, res)
        got = il[n] if n < len(il) else "<nothing: harness died>"
        print("%-14s impl   %s" % ("%s %s" % (name, " ".join(map(str, a))), got))
        if got != ex:
            print("%-14s wanted %s   <-- property violated here" % ("", ex))
            break
    for f in r["findings"]:
        print("FINDING", f["message"])
    for dv in r["diverged"]:
        print("MODEL/IMPL DIVERGE", dv)
    return 1 if (r["findings"] or r["diverged"] or r["tool_bugs"]) else 0
