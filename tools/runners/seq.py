"""Runner for C14 (all strategies implement one sequential specification, counts included).

Ties coq/Seq/SeqSpec.v (the specification: plain variables + a textbook reference-count heap) and
coq/Seq/SeqImpl.v (sequential models of DefaultStrategy, FillFastSlots and RwLock<()>) to /repo:
generated single-threaded programs over the public API are executed
  (a) by harness/seq on the REAL crate with real Arc<Obj> / Option<Arc<Obj>> under the three strategies,
  (b) by the extracted Coq specification and the three extracted strategy models (coq/driver/seq_run.ml),
  (c) by the oracle below: an independent Python restatement of the property text (a plain variable
      and one count per object),
and compared after every operation (identity returned by the call; strong_count of every object).
  (a) vs (c): identities must be equal; counts must satisfy  spec - guards_alive(a) <= impl <= spec  at
              every step and  impl == spec  once no guard is alive; nothing may panic or leak
              -> otherwise the implementation violates the property on a concrete input: finding (replayable)
  (a) vs (b): the strategy's model must predict the real strong_count EXACTLY at every step
              -> otherwise the model no longer describes the code: broken
  (b) vs (c): the Coq specification and the oracle must agree -> otherwise the tooling is wrong: broken
"""
import os, sys, json, time, random, hashlib, subprocess, shutil, collections
HERE = os.path.dirname(os.path.abspath(__file__))
TOOLS = os.path.dirname(HERE)
ROOT = os.path.dirname(TOOLS)
sys.path.insert(0, TOOLS)
import buildlib

COQ = os.path.join(ROOT, "coq")
CRATE = os.path.join(ROOT, "harness", "seq")
MODEL_DIR = os.path.join(COQ, "build", "seq")
MODEL_EXE = os.path.join(MODEL_DIR, "seq_run")
NCONT, NHAND = 3, 14          # handle registers 0 and 1 are reserved (temporaries of the models)
STRATS = ("default", "nofast", "rwlock")
RUST_STRAT = {"default": "DefaultStrategy", "nofast": "strategy::test_strategies::FillFastSlots", "rwlock": "std::sync::RwLock<()>"}
FORMS = ("arc", "gref", "gval", "const", "mut", "nullc", "nullm", "none")

_harness_exe = [None]
_harness_exe_verif = [None]


def _repo():
    return os.environ.get("VERIF_REPO", "/repo")


# ------------------------------------------------------------------ build
def coq_targets():
    os.makedirs(os.path.join(COQ, "extract"), exist_ok=True)     # git-ignored: absent on a fresh checkout
    return ["Seq/SeqExtract.vo"]


def build():
    broken = []
    ml = os.path.join(COQ, "extract", "seq_model.ml")
    if not os.path.exists(ml):
        for ext in (".vo", ".vos", ".vok", ".glob"):
            try:
                os.remove(os.path.join(COQ, "Seq", "SeqExtract" + ext))
            except OSError:
                pass
        buildlib.coq_build(["Seq/SeqExtract.vo"])
    srcs = [ml, ml + "i", os.path.join(COQ, "driver", "seq_run.ml")]
    if not all(os.path.exists(s) for s in srcs):
        broken.append("extracted C14 model is missing (Seq/SeqExtract.v did not produce extract/seq_model.ml)")
    else:
        os.makedirs(MODEL_DIR, exist_ok=True)
        if not (os.path.exists(MODEL_EXE) and all(os.path.getmtime(s) <= os.path.getmtime(MODEL_EXE) for s in srcs)):
            for s in srcs:
                shutil.copy(s, MODEL_DIR)
            rc, out = buildlib.sh("ocamlfind ocamlopt -O2 -w -a seq_model.mli seq_model.ml seq_run.ml -o seq_run",
                                  cwd=MODEL_DIR, timeout=600)
            if rc != 0:
                broken.append("extracted C14 model driver does not build: " + out[-400:])
    repo = _repo()
    crate, tdir = CRATE, os.path.join(ROOT, "harness", "target", "seq")
    if os.path.abspath(repo) != "/repo":
        tag = hashlib.sha1(os.path.abspath(repo).encode()).hexdigest()[:8]
        crate = os.path.join(buildlib.WORK, "seq-crate-" + tag)
        tdir = os.path.join(ROOT, "harness", "target", "seq-" + tag)
        shutil.rmtree(crate, ignore_errors=True)
        shutil.copytree(CRATE, crate, ignore=shutil.ignore_patterns("target"))
        ct = open(os.path.join(crate, "Cargo.toml")).read().replace('path = "/repo"', 'path = "%s"' % os.path.abspath(repo))
        open(os.path.join(crate, "Cargo.toml"), "w").write(ct)
    env = dict(buildlib.ENV, RUSTFLAGS="")     # the crate as users build it (no cfg arc_swap_verif)
    rc, out = buildlib.sh(["cargo", "build", "--offline", "--target-dir", tdir], cwd=crate, timeout=3000, env=env)
    os.makedirs(buildlib.WORK, exist_ok=True)
    open(os.path.join(buildlib.WORK, "seq_build.log"), "w").write(out)
    _harness_exe[0] = os.path.join(tdir, "debug", "seq")
    # second build with the hook shim: every other weak compare-exchange fails spuriously
    env2 = dict(buildlib.ENV, RUSTFLAGS="--cfg arc_swap_verif --check-cfg cfg(arc_swap_verif)")
    rc2, out2 = buildlib.sh(["cargo", "build", "--offline", "--target-dir", tdir + "-verif"], cwd=crate, timeout=3000, env=env2)
    _harness_exe_verif[0] = os.path.join(tdir + "-verif", "debug", "seq") if rc2 == 0 else None
    if rc2 != 0:
        errs2 = [l for l in out2.splitlines() if l.startswith("error")]
        broken.append("harness/seq does not build with the hook shim (--cfg arc_swap_verif) against %s: %s" % (repo, " | ".join(errs2[:3])))
    if rc != 0:
        errs = [l for l in out.splitlines() if l.startswith("error")]
        broken.append("harness/seq does not build against %s (the public API or the test strategies changed; correspondence cannot run): %s"
                      % (repo, " | ".join(errs[:4])))
    return broken


def trusted_base(pid):
    return [
        "Coq 8.16.1 kernel (coqc); standard library only (List, Arith, Lia); no vm_compute/native_compute in proofs of theorems (vm_compute only inside Examples)",
        "hand transliteration of src/lib.rs (new/from_pointee/empty/load/load_full/store/swap/compare_and_swap/rcu/into_inner/Drop, Guard::into_inner/from_inner), src/strategy/hybrid.rs, src/strategy/rw_lock.rs, src/debt/fast.rs (get_debt), src/debt/mod.rs (pay, pay_all), src/as_raw.rs into coq/Seq/SeqImpl.v at API-call granularity for ONE thread (file:line cited); checked against the code by the differential run (exact strong_count after every call), not by a translator",
        "the specification coq/Seq/SeqSpec.v itself (plain variable + reference-count heap) — restated independently by the Python oracle in tools/runners/seq.py and compared on every program",
        "extraction: Require Extraction + ExtrOcamlBasic only (no Extract Constant), OCaml 4.13 driver coq/driver/seq_run.ml (parsing/printing only)",
        "harness/seq (register machine over the real types; identity of an object = creation index, found through Arc::as_ptr; counts through Weak::strong_count of a Weak the harness keeps per object), tools/runners/seq.py (generator, oracle, exact line diff, no wildcards)",
        "std's Arc (strong_count, clone, drop) as the meaning of 'strong count'",
    ]


def assumptions(pid):
    return [
        "single-threaded: one thread calls the API, no other thread touches the containers or the thread's debt node; the concurrent protocol is the subject of C01-C13",
        "the theorems are about the models of coq/Seq/SeqImpl.v; they transfer to /repo as far as the differential run reaches (programs counted in coverage): the models predict the real strong_count exactly on every run program",
        "a thread starts with eight empty fast slots and offset 0 (the harness runs every program on a fresh thread; a reused node has empty slots because every earlier program dropped its guards)",
        "compare_exchange_weak does not fail spuriously in the models (a spurious failure repeats the loop body, which the model's first round already describes); the harness is run a second time with every other weak compare-exchange failing spuriously (hook shim) and must give the same results",
        "counts stay far below usize::MAX (Arc aborts at isize::MAX references); the helping generation counter does not wrap within a program",
        "&Guard / Guard as `current` exist in the API only for the default strategy's guard (src/as_raw.rs:47-59); under FillFastSlots and RwLock<()> the harness writes &*guard and drops the guard after the call, which is what the model of those forms does",
    ]


# ------------------------------------------------------------------ oracle: the property text, nothing else
class Oracle:
    """A container is a variable holding an object index or None; a handle (value or guard) is one
    reference; count[o] = number of references to o.  Nothing of the crate's mechanism is in here."""

    def __init__(self, ncont, nhand):
        self.C = [None] * ncont           # None | ("c", target)   target: None (null) | index
        self.H = [None] * nhand           # None | (is_guard, target)
        self.cnt = []

    def up(self, t):
        if t is not None: self.cnt[t] += 1

    def down(self, t):
        if t is not None: self.cnt[t] -= 1

    def hempty(self, r): return 0 <= r < len(self.H) and self.H[r] is None
    def hfree(self, r): return r >= 2 and self.hempty(r)      # a destination: not one of the two reserved registers
    def isval(self, r): return 0 <= r < len(self.H) and self.H[r] is not None and not self.H[r][0]
    def isguard(self, r): return 0 <= r < len(self.H) and self.H[r] is not None and self.H[r][0]
    def isany(self, r): return 0 <= r < len(self.H) and self.H[r] is not None
    def cempty(self, c): return 0 <= c < len(self.C) and self.C[c] is None
    def cfull(self, c): return 0 <= c < len(self.C) and self.C[c] is not None

    def valid(self, op):
        n, a = op[0], op[1:]
        if not (self.hempty(0) and self.hempty(1)): return False
        if n in ("alloc", "null"): return self.hfree(a[0])
        if n == "clone": return self.isval(a[0]) and self.hfree(a[1])
        if n == "drop": return self.isany(a[0])
        if n == "new": return self.cempty(a[0]) and self.isval(a[1])
        if n in ("fromp", "empty"): return self.cempty(a[0])
        if n in ("load", "loadfull", "into"): return self.cfull(a[0]) and self.hfree(a[1])
        if n == "ginto": return self.isguard(a[0])
        if n == "gfrom": return self.isval(a[0])
        if n in ("store", "swap"): return self.cfull(a[0]) and self.isval(a[1])
        if n == "cas":
            c, form = a[0], a[1]
            x, r = (a[2], a[3]) if form in ("arc", "gref", "gval", "const", "mut") else (None, a[2])
            if not (self.cfull(c) and self.isval(r)): return False
            if form == "arc": return self.isval(x) and x != r
            if form in ("gref", "gval"): return self.isguard(x) and x != r
            if form in ("const", "mut"): return self.isany(x) and x != r
            return True
        if n == "rcu": return self.cfull(a[0]) and self.isval(a[1]) and self.hfree(a[2])
        if n == "dropc": return self.cfull(a[0])
        raise ValueError(n)

    def step(self, op):
        """returns the result token"""
        if not self.valid(op): return "inv"
        n, a = op[0], op[1:]
        C, H = self.C, self.H
        P = lambda t: "p=" + ("null" if t is None else "@%d" % t)
        if n == "alloc":
            self.cnt.append(1); H[a[0]] = (False, len(self.cnt) - 1); return P(H[a[0]][1])
        if n == "null":
            H[a[0]] = (False, None); return P(None)
        if n == "clone":
            t = H[a[0]][1]; self.up(t); H[a[1]] = (False, t); return P(t)
        if n == "drop":
            self.down(H[a[0]][1]); H[a[0]] = None; return "unit"
        if n == "new":
            C[a[0]] = ("c", H[a[1]][1]); H[a[1]] = None; return "unit"
        if n == "fromp":
            self.cnt.append(1); C[a[0]] = ("c", len(self.cnt) - 1); return P(C[a[0]][1])
        if n == "empty":
            C[a[0]] = ("c", None); return P(None)
        if n in ("load", "loadfull"):
            t = C[a[0]][1]; self.up(t); H[a[1]] = (n == "load", t); return P(t)
        if n == "ginto":
            H[a[0]] = (False, H[a[0]][1]); return P(H[a[0]][1])
        if n == "gfrom":
            H[a[0]] = (True, H[a[0]][1]); return P(H[a[0]][1])
        if n == "store":
            old = C[a[0]][1]; C[a[0]] = ("c", H[a[1]][1]); H[a[1]] = None; self.down(old); return "unit"
        if n == "swap":
            old = C[a[0]][1]; C[a[0]] = ("c", H[a[1]][1]); H[a[1]] = (False, old); return P(old)
        if n == "cas":
            c, form = a[0], a[1]
            x, r = (a[2], a[3]) if form in ("arc", "gref", "gval", "const", "mut") else (None, a[2])
            current = H[x][1] if x is not None else None      # every form denotes the pointer of what it was made from; null forms denote null
            stored = C[c][1]
            ok = stored == current
            if ok:
                C[c] = ("c", H[r][1]); H[r] = (True, stored)
            else:
                self.up(stored); self.down(H[r][1]); H[r] = (True, stored)
            if form == "gval":
                self.down(H[x][1]); H[x] = None
            return "cas=%s,%d" % ("null" if stored is None else "@%d" % stored, 1 if ok else 0)
        if n == "rcu":
            old = C[a[0]][1]; t = H[a[1]][1]; self.up(t); C[a[0]] = ("c", t); H[a[2]] = (False, old); return P(old)
        if n == "into":
            t = C[a[0]][1]; C[a[0]] = None; H[a[1]] = (False, t); return P(t)
        if n == "dropc":
            self.down(C[a[0]][1]); C[a[0]] = None; return "unit"
        raise ValueError(n)

    def guards_on(self):
        g = [0] * len(self.cnt)
        for h in self.H:
            if h is not None and h[0] and h[1] is not None:
                g[h[1]] += 1
        return g


def op_text(op):
    return " ".join(str(x) for x in op)


def prog_text(pid, flav, ops):
    return "prog %s %s %d %d\n" % (pid, flav, NCONT, NHAND) + "".join(op_text(o) + "\n" for o in ops) + "end\n"


# ------------------------------------------------------------------ generator
def gen_program(rng, flav, length, mode):
    """Mostly valid: each operation is drawn among those enabled in the oracle's state (about 2% blind,
    possibly refused by all sides); a clean-up tail drops every handle (random order) and every
    container.  mode 'guards' favours loads so that more than 8 guards are alive (slots exhausted)."""
    o = Oracle(NCONT, NHAND)
    ops = []
    regs = list(range(2, NHAND))

    def emit(op):
        o.step(op); ops.append(tuple(op))

    def cas_forms(r):
        fs = []
        vals = [x for x in regs if o.isval(x) and x != r]
        gs = [x for x in regs if o.isguard(x)]
        anyh = vals + gs
        if vals: fs += [("arc", rng.choice(vals))] * 3
        if gs: fs += [("gref", rng.choice(gs))] * 3 + [("gval", rng.choice(gs))] * 3
        if anyh: fs += [("const", rng.choice(anyh))] * 2 + [("mut", rng.choice(anyh))] * 2
        fs += [("nullc", None), ("nullm", None), ("none", None)]
        return fs

    for _ in range(length):
        if rng.random() < 0.02:
            n = rng.choice(["alloc", "clone", "drop", "new", "load", "loadfull", "ginto", "gfrom", "store", "swap", "rcu", "into", "dropc", "cas"])
            rr = lambda: rng.randrange(0, NHAND)
            cc = lambda: rng.randrange(0, NCONT)
            if n in ("alloc", "drop", "ginto", "gfrom"): emit((n, rr()))
            elif n == "clone": emit((n, rr(), rr()))
            elif n in ("new", "load", "loadfull", "store", "swap", "into"): emit((n, cc(), rr()))
            elif n == "rcu": emit((n, cc(), rr(), rr()))
            elif n == "dropc": emit((n, cc()))
            else:
                f = rng.choice(FORMS)
                emit(("cas", cc(), f, rr(), rr()) if f in ("arc", "gref", "gval", "const", "mut") else ("cas", cc(), f, rr()))
            continue
        empt = [r for r in regs if o.hempty(r)]
        vals = [r for r in regs if o.isval(r)]
        gs = [r for r in regs if o.isguard(r)]
        cf = [c for c in range(NCONT) if o.cfull(c)]
        ce = [c for c in range(NCONT) if o.cempty(c)]
        cand = []
        gw = 14 if mode == "guards" else 5
        if empt:
            cand.append((4 if vals else 9, ("alloc", rng.choice(empt))))
            if flav == "opt": cand.append((1, ("null", rng.choice(empt))))
            if vals: cand.append((2, ("clone", rng.choice(vals), rng.choice(empt))))
            if cf:
                cand.append((gw, ("load", rng.choice(cf), rng.choice(empt))))
                cand.append((3, ("loadfull", rng.choice(cf), rng.choice(empt))))
                if len(cf) > 1 or rng.random() < 0.3: cand.append((1, ("into", rng.choice(cf), rng.choice(empt))))
                if vals: cand.append((4, ("rcu", rng.choice(cf), rng.choice(vals), rng.choice(empt))))
        if vals: cand.append((2, ("drop", rng.choice(vals))))
        if gs: cand.append((3 if mode == "guards" else 4, ("drop", rng.choice(gs))))
        if ce:
            if vals: cand.append((6 if not cf else 2, ("new", rng.choice(ce), rng.choice(vals))))
            cand.append((2 if not cf else 1, ("fromp", rng.choice(ce))))
            if flav == "opt": cand.append((1, ("empty", rng.choice(ce))))
        if gs: cand.append((3, ("ginto", rng.choice(gs))))
        if vals: cand.append((2, ("gfrom", rng.choice(vals))))
        if cf and vals:
            cand.append((5, ("store", rng.choice(cf), rng.choice(vals))))
            cand.append((5, ("swap", rng.choice(cf), rng.choice(vals))))
            r = rng.choice(vals)
            c = rng.choice(cf)
            fs = cas_forms(r)
            # half of the time pick a form that denotes what is stored (so that the exchange happens)
            stored = o.C[c][1]
            hit = [f for f in fs if (o.H[f[1]][1] if f[1] is not None else None) == stored]
            f = rng.choice(hit) if (hit and rng.random() < 0.5) else rng.choice(fs)
            cand.append((12, ("cas", c, f[0], f[1], r) if f[1] is not None else ("cas", c, f[0], r)))
        if cf and len(cf) > 1: cand.append((1, ("dropc", rng.choice(cf))))
        tot = sum(w for w, _ in cand)
        x = rng.random() * tot
        for w, op in cand:
            x -= w
            if x <= 0:
                emit(op); break
    # clean-up tail (registers 0/1 may have been filled by a blind op: then everything is refused from there on)
    live = [r for r in range(NHAND) if o.isany(r)]
    conts = [c for c in range(NCONT) if o.cfull(c)]
    rng.shuffle(live)
    todo = [("drop", r) for r in live]
    for c in conts:
        todo.insert(rng.randrange(len(todo) + 1), ("dropc", c))
    for op in todo:
        emit(op)
    return ops


def corpus_programs():
    """Hand-written programs run first at every tier: the crate's own sequential tests (lib.rs tests
    swap_load, from_into, nulls, cas_ref_cnt, load_cnt, rcu), every form of `current` hitting and missing,
    nine guards (one more than there are fast slots) held across store/swap/cas/rcu/into_inner/drop."""
    out = []
    def add(flav, text):
        ops = []
        for l in text.strip().splitlines():
            w = l.split()
            ops.append(tuple(int(x) if x.lstrip("-").isdigit() else x for x in w))
        out.append((flav, ops))
    for flav in ("arc", "opt"):
        # swap_load / load_cnt
        add(flav, "alloc 2\nclone 2 3\nnew 0 3\nload 0 4\nload 0 5\nalloc 6\nclone 6 7\nswap 0 7\nloadfull 0 8\ndrop 4\ndrop 5\ndrop 7\ndrop 8\ndrop 2\ndrop 6\ndropc 0")
        # from_into: a guard survives the container
        add(flav, "alloc 2\nnew 0 2\nload 0 3\ninto 0 4\ndrop 3\ndrop 4")
        # guard_drop_in_another_thread, sequentially: guard held across the container's drop
        add(flav, "fromp 0\nload 0 2\ndropc 0\ndrop 2")
        # nine guards held across a store, then dropped in both orders
        nine = "".join("load 0 %d\n" % r for r in range(3, 12))
        add(flav, "alloc 2\nnew 0 2\n" + nine + "alloc 2\nstore 0 2\n" + "".join("drop %d\n" % r for r in range(3, 12)) + "dropc 0")
        add(flav, "alloc 2\nnew 0 2\n" + nine + "alloc 2\nswap 0 2\n" + "".join("drop %d\n" % r for r in range(11, 2, -1)) + "drop 2\ndropc 0")
        add(flav, "alloc 2\nnew 0 2\n" + nine + "alloc 12\nrcu 0 12 13\n" + "".join("ginto %d\n" % r for r in range(3, 12)) + "".join("drop %d\n" % r for r in range(3, 14)) + "dropc 0")
        add(flav, "alloc 2\nnew 0 2\n" + nine + "into 0 12\n" + "".join("drop %d\n" % r for r in range(3, 13)))
        add(flav, "alloc 2\nnew 0 2\n" + nine + "dropc 0\n" + "".join("drop %d\n" % r for r in range(3, 12)))
        # a slot paid by a writer is reused by a second guard on the same pointer: the two guards share the slot
        add(flav, "alloc 2\nclone 2 3\nnew 0 3\nload 0 4\nalloc 5\nswap 0 5\nswap 0 5\n" + "".join("load 0 %d\n" % r for r in range(6, 14)) + "drop 4\n" + "".join("drop %d\n" % r for r in range(6, 14)) + "drop 5\ndrop 2\ndropc 0")
        # every form of current, hitting
        for f in ("arc 3", "gref 4", "gval 4", "const 3", "const 4", "mut 3", "mut 4"):
            add(flav, "alloc 2\nclone 2 3\nnew 0 2\nload 0 4\nalloc 5\ncas 0 %s 5\ndrop 5\ndrop 3\n%sdropc 0" % (f, "" if f == "gval 4" else "drop 4\n"))
        # ... and missing (current denotes another object / null)
        for f in ("arc 3", "gref 4", "gval 4", "const 3", "mut 4", "nullc", "nullm", "none"):
            add(flav, "alloc 2\nnew 0 2\nalloc 3\nclone 3 6\nnew 1 6\nload 1 4\nalloc 5\ncas 0 %s 5\ndrop 5\ndrop 3\n%sdropc 0\ndropc 1" % (f, "" if f == "gval 4" else "drop 4\n"))
        # cas_ref_cnt (lib.rs tests): guards filling the slots around a cas that hits and one that misses
        add(flav, "alloc 2\nclone 2 3\nnew 0 3\n" + "".join("load 0 %d\n" % r for r in range(4, 13)) + "alloc 3\ncas 0 arc 2 3\n" +
            "".join("drop %d\n" % r for r in range(4, 13)) + "alloc 13\ncas 0 arc 2 13\nginto 13\ndrop 13\ndrop 3\ndrop 2\ndropc 0")
        # rcu storing what is already stored; cas with new == stored
        add(flav, "alloc 2\nclone 2 3\nnew 0 3\nrcu 0 2 4\nclone 2 5\ncas 0 arc 2 5\ndrop 5\ndrop 4\ndrop 2\ndropc 0")
    # nulls (lib.rs tests): Option flavour
    add("opt", "alloc 2\nnew 0 2\nnull 3\nswap 0 3\nload 0 4\nalloc 5\nclone 5 6\ncas 0 nullc 6\nnull 7\ncas 0 none 7\nginto 7\ndrop 7\ndrop 6\ndrop 5\ndrop 4\ndrop 3\ndropc 0")
    add("opt", "empty 0\nload 0 2\nnull 3\ncas 0 gref 2 3\nnull 4\ncas 0 gval 2 4\nloadfull 0 5\nrcu 0 5 6\ninto 0 7\ndrop 3\ndrop 4\ndrop 5\ndrop 6\ndrop 7")
    add("opt", "empty 0\n" + "".join("load 0 %d\n" % r for r in range(2, 12)) + "alloc 12\nstore 0 12\n" + "".join("drop %d\n" % r for r in range(2, 12)) + "dropc 0")
    return out


# ------------------------------------------------------------------ running
def _parse_blocks(text):
    """(prog id, block name) -> (lines, status)   status: 'end' | 'panic' | None (cut short)"""
    res, cur, key = {}, None, None
    for l in text.splitlines():
        if l.startswith("prog "):
            w = l.split(); key = (w[1], w[2]); cur = []; res[key] = [cur, None]
        elif l.startswith("end ") or l.startswith("panic "):
            if key is not None: res[key][1] = l.split()[0]
            key = None
        elif key is not None:
            cur.append(l)
    return res


MAX_RESTARTS = 200


def run_impl(path, n_progs):
    """Runs the harness; an abort is attributed to the program being executed and the run goes on with the next."""
    exe = _harness_exe[0] or os.path.join(ROOT, "harness", "target", "seq", "debug", "seq")
    parsed, crashes, first, restarts = {}, {}, 0, 0
    while first < n_progs and restarts < MAX_RESTARTS:
        try:
            p = subprocess.run([exe, path, str(first)], stdout=subprocess.PIPE, stderr=subprocess.PIPE, timeout=1500)
            out, rc, err = p.stdout.decode(errors="replace"), p.returncode, p.stderr.decode(errors="replace")[-400:]
        except subprocess.TimeoutExpired as e:
            out, rc, err = (e.stdout or b"").decode(errors="replace"), -999, "timeout"
        part = _parse_blocks(out)
        parsed.update(part)
        done = [int(k[0]) for k, v in part.items() if k[1] == STRATS[-1] and v[1] is not None]
        if rc == 0 and done and max(done) == n_progs - 1:
            return parsed, crashes, None
        started = [int(k[0]) for k in part]
        bad = max(started) if started else first
        crashes[bad] = "exit status %s %s" % (rc, " ".join(err.split())[-300:])
        first = bad + 1
        restarts += 1
    return parsed, crashes, (first if first < n_progs else None)


def run_model(path):
    p = subprocess.run([MODEL_EXE, path], stdout=subprocess.PIPE, stderr=subprocess.PIPE, timeout=1500)
    return _parse_blocks(p.stdout.decode(errors="replace")), p.returncode, p.stderr.decode(errors="replace")[-300:]


def _split(line):
    """'<n> <res> | c0 c1 ..[ | d0 d1 ..]' -> (n, res, [counts], [debts] or None)"""
    parts = [x.strip() for x in line.split("|")]
    w = parts[0].split()
    cs = [int(x) for x in parts[1].split()] if len(parts) > 1 else []
    ds = [int(x) for x in parts[2].split()] if len(parts) > 2 else None
    return w[0], (w[1] if len(w) > 1 else ""), cs, ds


def execute(progs, workdir, tag):
    """progs: list of (flavour, ops).  Returns per-program verdicts."""
    os.makedirs(workdir, exist_ok=True)
    path = os.path.join(workdir, tag + ".prog")
    with open(path, "w") as f:
        for i, (flav, ops) in enumerate(progs):
            f.write(prog_text(i, flav, ops))
    impl, crashes, not_run_from = run_impl(path, len(progs))
    model, mrc, merr = run_model(path)
    findings, diverged, tool_bugs, agree, lines = [], [], [], 0, 0
    stats = collections.Counter()
    for i, (flav, ops) in enumerate(progs):
        if not_run_from is not None and i >= not_run_from:
            break
        k = str(i)
        # the oracle's run
        o = Oracle(NCONT, NHAND)
        exp = []
        for op in ops:
            res = o.step(op)
            exp.append((res, list(o.cnt), o.guards_on()))
        lines += len(ops)
        # (b) vs (c): Coq specification = oracle
        sl = model.get((k, "spec"), [[], None])[0]
        for j in range(max(len(sl), len(exp))):
            got = _split(sl[j])[1:3] if j < len(sl) else None
            want = (exp[j][0], exp[j][1]) if j < len(exp) else None
            if got != want:
                tool_bugs.append("program %d op %d `%s`: Coq specification says %s, oracle says %s" % (i, j, op_text(ops[j]) if j < len(ops) else "?", got, want))
                break
        ok_prog = True
        for st in STRATS:
            il, status = impl.get((k, st), [[], None])
            ml = model.get((k, st), [[], None])[0]
            # (a) vs (c): the property
            viol = None
            for j in range(len(ops)):
                if j >= len(il) or il[j].startswith("left"):
                    how = "the process running the real crate died (%s)" % crashes.get(i, "?") if status is None else "the call panicked"
                    viol = (j, how + "; the property requires `%s | %s`" % (exp[j][0], " ".join(map(str, exp[j][1]))))
                    break
                _, res, cs, _ = _split(il[j])
                want_res, want_cnt, guards = exp[j]
                if res != want_res:
                    viol = (j, "the call returned `%s`, a plain variable holding the pointer gives `%s`" % (res, want_res)); break
                if len(cs) != len(want_cnt):
                    viol = (j, "%d objects observed, %d created by the program" % (len(cs), len(want_cnt))); break
                bad = [a for a in range(len(cs)) if not (want_cnt[a] - guards[a] <= cs[a] <= want_cnt[a])]
                if bad:
                    a = bad[0]
                    viol = (j, "strong_count of object @%d is %d; the references the program holds amount to %d, of which %d are guards (a guard may borrow one, nothing else may differ)" % (a, cs[a], want_cnt[a], guards[a]))
                    break
            if viol is None and status == "end":
                left = [l for l in il if l.startswith("left")]
                lc = [int(x) for x in left[0].split("|")[1].split()] if left else None
                if lc is None or any(x != 0 for x in lc):
                    viol = (len(ops) - 1, "after every handle and container is dropped the strong counts are %s instead of all 0 (leak)" % lc)
            elif viol is None and status != "end":
                viol = (len(ops) - 1, "the run did not finish (%s)" % (crashes.get(i, status)))
            if viol is not None:
                ok_prog = False
                j, how = viol
                findings.append({
                    "message": "%s, %s flavour: after operation %d (`%s`) %s" % (RUST_STRAT[st], "Option<Arc<_>>" if flav == "opt" else "Arc<_>", j, op_text(ops[j]) if j < len(ops) else "", how),
                    "cls": None,
                    "replay": {"program": prog_text(0, flav, ops[: j + 1]), "full_program": prog_text(0, flav, ops), "strategy": st, "failing_op_index": j,
                               "expected_by_property": ["%s | %s" % (e[0], " ".join(map(str, e[1]))) for e in exp[: j + 1]][-3:],
                               "observed": il[: j + 1][-3:], "crash": crashes.get(i)},
                })
            # (a) vs (b): the strategy's model predicts the real counts exactly
            dv = None
            for j in range(len(ops)):
                a_ = _split(il[j])[1:3] if j < len(il) and not il[j].startswith("left") else None
                b_ = _split(ml[j])[1:3] if j < len(ml) else None
                if a_ != b_:
                    dv = (i, flav, st, j, il[j] if j < len(il) else "<missing>", ml[j] if j < len(ml) else "<missing>"); break
            if dv is not None:
                ok_prog = False
                diverged.append(dv)
            # model-level relation count_impl + debts = count_spec (what the theorem says) on the model's own output
            for j in range(min(len(ml), len(sl))):
                _, _, mc, md = _split(ml[j]); _, _, sc, _ = _split(sl[j])
                if md is None or [x + y for x, y in zip(mc, md)] != sc:
                    tool_bugs.append("program %d %s op %d: model counts %s + debts %s != spec counts %s (contradicts the theorem: tooling)" % (i, st, j, mc, md, sc)); break
                if st == "default":
                    stats["steps_with_unpaid_debts"] += 1 if any(md) else 0
        if ok_prog:
            agree += 1
    return {"path": path, "findings": findings, "diverged": diverged, "tool_bugs": tool_bugs, "agree": agree, "crashes": crashes,
            "not_run": 0 if not_run_from is None else len(progs) - not_run_from, "model_rc": mrc, "model_err": merr, "impl": impl, "model": model,
            "lines": lines, "stats": stats}


def program_features(flav, ops):
    """what a program exercises (measured on the oracle's run)"""
    o = Oracle(NCONT, NHAND)
    f = collections.Counter()
    for op in ops:
        g_before = sum(1 for h in o.H if h is not None and h[0])
        stored_before = None
        if op[0] in ("store", "swap", "cas", "rcu", "into", "dropc") and o.valid(op):
            stored_before = o.C[op[1]][1]
            held = sum(1 for h in o.H if h is not None and h[0] and h[1] == stored_before)
            if held: f["write_with_guard_on_replaced_value"] += 1
            if g_before > 8: f["write_with_more_than_8_guards_alive"] += 1
        res = o.step(op)
        if res == "inv":
            f["refused"] += 1; continue
        f["op:" + op[0]] += 1
        if op[0] == "cas":
            f["cas:%s:%s" % (op[2], "hit" if res.endswith(",1") else "miss")] += 1
        if op[0] == "load" and g_before >= 8: f["load_with_8_or_more_guards_alive"] += 1
        if res.startswith("p=null") or res.startswith("cas=null"): f["null_result"] += 1
    return f


def run(pid, cfg, tier, seed, workdir, already_broken):
    t0 = time.time()
    rng = random.Random(seed * 1000003 + 14)
    progs = list(corpus_programs())
    n_corpus = len(progs)
    n_rand = 1500 if tier == "quick" else 100000
    if already_broken and tier == "quick":
        n_rand = 6000
    for i in range(n_rand):
        flav = "opt" if i % 2 else "arc"
        mode = "guards" if i % 3 == 0 else "mixed"
        progs.append((flav, gen_program(rng, flav, rng.randrange(6, 60), mode)))
    shard = 5000
    agg = {"findings": [], "diverged": [], "tool_bugs": [], "agree": 0, "crashes": {}, "lines": 0, "not_run": 0}
    feats = collections.Counter(); digests = set(); samples = []; model_fail = None; stats = collections.Counter()
    for s0 in range(0, len(progs), shard):
        part = progs[s0:s0 + shard]
        r = execute(part, workdir, "shard%03d" % (s0 // shard))
        for k in ("findings", "diverged", "tool_bugs"):
            agg[k] += r[k]
        agg["crashes"].update({s0 + k: v for k, v in r["crashes"].items()})
        agg["agree"] += r["agree"]; agg["lines"] += r["lines"]; agg["not_run"] += r["not_run"]
        stats.update(r["stats"])
        if r["model_rc"] != 0 and model_fail is None:
            model_fail = r["model_err"]
        for flav, ops in part:
            f = program_features(flav, ops)
            feats.update(f)
            if any(k.startswith("op:") and k[3:] in ("load", "loadfull", "store", "swap", "cas", "rcu", "into", "dropc", "ginto", "gfrom") for k in f):
                digests.add(hashlib.sha1(prog_text(0, flav, ops).encode()).hexdigest())
        if not samples:
            for idx in (3, n_corpus, n_corpus + 1):
                if idx < len(part):
                    flav, ops = part[idx]
                    samples.append({"flavour": flav, "program": prog_text(idx, flav, ops).splitlines(),
                                    "observed_on_impl": {st: r["impl"].get((str(idx), st), [[], None])[0][:70] for st in STRATS},
                                    "coq_spec": r["model"].get((str(idx), "spec"), [[], None])[0][:70]})
        if agg["findings"] and not already_broken and tier == "quick":
            break
    # the same comparison with spurious failures of every other weak compare-exchange injected through the
    # hook shim: code that uses the weak form must retry, so nothing observable may change
    n_spur = 0
    if _harness_exe_verif[0] and os.path.exists(_harness_exe_verif[0]):
        plain = _harness_exe[0]
        _harness_exe[0] = _harness_exe_verif[0]
        try:
            part = progs[:400 if tier == "quick" else 5000]
            r = execute(part, workdir, "spurious")
            n_spur = len(part)
            for f in r["findings"]:
                f["message"] = "with a spurious failure injected into every other weak compare-exchange: " + f["message"]
            agg["findings"] += r["findings"]
            # not compared with the per-strategy models line by line: a retried exchange re-loads and so uses
            # another fast slot, which shifts WHICH guards hold debts; only the property itself is judged here
            # (identities = specification, spec - live guards <= count <= spec, everything 0 at the end)
        finally:
            _harness_exe[0] = plain
    broken = []
    if model_fail is not None:
        broken.append("extracted model driver failed: " + model_fail)
    if agg["not_run"]:
        broken.append("harness/seq died more than %d times; %d programs were not executed" % (MAX_RESTARTS, agg["not_run"]))
    if agg["tool_bugs"]:
        broken.append("C14 Coq specification/models and the runner's oracle disagree with each other (%d cases; first: %s)" % (len(agg["tool_bugs"]), agg["tool_bugs"][0]))
    if agg["diverged"]:
        i, flav, st, j, il, ml = agg["diverged"][0]
        broken.append("differential run model<->code: %d (program, strategy) pairs diverge out of %d programs x 3; first: program %d (%s, %s) line %d impl `%s` model `%s`" % (
            len(agg["diverged"]), len(progs), i, flav, RUST_STRAT[st], j, il, ml))
    coverage = {
        "traces_validated_against_impl": agg["agree"],
        "evaluations": len(progs),
        "distinct_nontrivial": len(digests),
        "rule": "one case = one single-threaded program (hand-written corpus of %d + generated from the seed: flavour Arc/Option<Arc> alternating, "
                "6-59 operations drawn among those enabled in the oracle's state, 2%% blind, one program in three biased to loads so that more than "
                "8 guards are alive, clean-up tail dropping everything) executed on the real crate under DefaultStrategy, FillFastSlots and RwLock<()> "
                "(each on a fresh thread), on the extracted Coq specification and the three extracted strategy models, and on the Python oracle; "
                "after every operation the returned identity and the strong count of every object are compared (impl = model exactly; impl vs "
                "specification: identities equal, spec - guards <= count <= spec, all 0 at the end). validated = all three strategies agree with "
                "their model and the property on the whole program. non-trivial = at least one container operation was executed (not refused); "
                "distinct = distinct sha1 of (flavour, operations)" % n_corpus,
        "lines_compared_per_strategy": agg["lines"],
        "strategies": list(RUST_STRAT.values()),
        "executed_operations_and_situations": dict(sorted(feats.items())),
        "steps_with_unpaid_debts_default_strategy": stats["steps_with_unpaid_debts"],
        "harness_crashes": len(agg["crashes"]),
        "programs_rerun_with_spurious_weak_cas_failures": n_spur,
        "samples": samples,
    }
    summary = "%d/%d programs agree under all 3 strategies (impl = strategy model exactly, identities = specification, counts within the borrow rule), %d operations, %d distinct non-trivial" % (
        agg["agree"], len(progs), agg["lines"], len(digests))
    search = "%d programs x 3 strategies (%d corpus + %d generated, seed %d) in %.0fs; %d property violations, %d crashes" % (
        len(progs), n_corpus, n_rand, seed, time.time() - t0, len(agg["findings"]), len(agg["crashes"]))
    fs = sorted(agg["findings"], key=lambda f: (f["replay"]["crash"] is not None, f["replay"]["failing_op_index"], len(f["replay"]["program"])))[:3]
    return {"broken": broken, "findings": fs, "coverage": coverage, "summary": summary, "search_summary": search}


def replay(pid, cfg, path, workdir):
    d = json.load(open(path))
    if "program" not in d:
        print(json.dumps(d, indent=1))
        return 0
    b = build()
    if b:
        print("\n".join(b))
        return 2
    lines = d["program"].splitlines()
    flav = lines[0].split()[2]
    ops = []
    for l in lines[1:]:
        if l and l != "end":
            ops.append(tuple(int(x) if x.lstrip("-").isdigit() else x for x in l.split()))
    r = execute([(flav, ops)], workdir, "replay")
    o = Oracle(NCONT, NHAND)
    print("program (%s flavour), property's expectation and what the real crate does under each strategy:" % flav)
    for n, op in enumerate(ops):
        res = o.step(op)
        print("%-22s property: %s | %s" % (op_text(op), res, " ".join(map(str, o.cnt))))
        for st in STRATS:
            il = r["impl"].get(("0", st), [[], None])[0]
            print("%-22s   %-8s %s" % ("", st, il[n] if n < len(il) else "<nothing: harness died>"))
    for f in r["findings"]:
        print("FINDING", f["message"])
    for dv in r["diverged"]:
        print("MODEL/IMPL DIVERGE", dv)
    return 1 if (r["findings"] or r["diverged"] or r["tool_bugs"]) else 0
