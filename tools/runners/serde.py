"""Runner for C20 (serde transparency): differential runs of /repo (feature serde; real Arc;
DefaultStrategy, RwLock<()>, FillFastSlots; both flavours) against the evaluated Coq model
Seq/SerdeModel.v on generated pointee values and store sequences, plus a direct oracle of the
property statement on the implementation's output (search for a failing input)."""
import subprocess, os, sys, json, random, time, hashlib
HERE = os.path.dirname(os.path.abspath(__file__))
TOOLS = os.path.dirname(HERE)
ROOT = os.path.dirname(TOOLS)
sys.path.insert(0, TOOLS)
import buildlib, seqx_common as sx

PTYPES = ["u64", "str", "rec", "vec", "optu", "tup"]
STRATEGIES = ["default", "rwlock", "nofast"]


def coq_targets():
    return ["Seq/SerdeModel.vo"]


def build():
    return sx.build_harness()


def trusted_base(pid):
    return [
        "Coq 8.16.1 kernel (coqc; vm_compute only inside Examples and the evaluation of the model on the generated cases); no native_compute",
        "Coq standard library (NArith, List, Lia) — no axioms; Print Assumptions: closed under the global context",
        "serde's data model and serde's own impls for Arc<T> (feature rc: delegates to T) and Option<T> (serialize_none/serialize_some, deserialize_option) are modelled, not verified; serde_json 1.x and the harness's token recorder are the two formats exercised",
        "differential harness harness/seqx (sub-command serde), tools/runners/serde.py, tools/seqx_common.py: case generator, comparison of harness output with the model's evaluation; std's Weak::strong_count / Arc::strong_count as the observation of counts",
        "rustc 1.95 / cargo offline build of /repo with features serde + internal-test-strategies (and --cfg arc_swap_verif, hooks not installed by this sub-command)",
    ]


def assumptions(pid):
    return [
        "the theorems are about Seq/SerdeModel.v (sequential plain-cell model of the container; src/serde.rs:4-22 transliterated); they transfer to /repo as far as the differential runs reach (counted in coverage)",
        "round trip: de (ser v) = Some v for the pointee and deserialize_option (serialize_some (ser v)) = visit_some for the format are hypotheses in the theorem statement (serde's/the pointee's contract); e.g. Option<Arc<Option<T>>> in JSON does not satisfy the second and is excluded from the generated cases",
        "strategy independence of the sequential behaviour is property C14; here it is exercised (three strategies), not proved",
        "single-threaded use: concurrent stores during a serialization are covered by C03/C10 (the serializer sees one snapshot), not by this check",
    ]


# ---------------------------------------------------------------- generation
def _rstr(rng):
    alphabet = ["a", "b", "Z", "0", " ", "\"", "\\", "/", "\n", "\t", "é", "ß", "→", "𝄞", "\u0000", "null", "{", "}", "[", ","]
    return "".join(rng.choice(alphabet) for _ in range(rng.choice([0, 1, 1, 2, 3, 5, 9])))


def _rint(rng, bits, signed=False):
    edge = rng.random()
    if signed:
        lo, hi = -(1 << (bits - 1)), (1 << (bits - 1)) - 1
    else:
        lo, hi = 0, (1 << bits) - 1
    if edge < 0.15:
        return rng.choice([lo, hi, 0])
    if edge < 0.5:
        return rng.randint(max(lo, -20), min(hi, 20))
    return rng.randint(lo, hi)


def _rkind(rng):
    k = rng.randrange(4)
    if k == 0:
        return "Unit"
    if k == 1:
        return {"New": _rint(rng, 8)}
    if k == 2:
        return {"Tup": [_rint(rng, 16, True), rng.random() < 0.5]}
    return {"Rec": {"x": _rint(rng, 32), "y": _rstr(rng)}}


def _rrec(rng, depth=0):
    return {
        "id": _rint(rng, 64), "name": _rstr(rng),
        "opt": None if rng.random() < 0.4 else _rint(rng, 64, True),
        "list": [_rint(rng, 32) for _ in range(rng.choice([0, 1, 2, 4]))],
        "child": _rrec(rng, depth + 1) if depth < 3 and rng.random() < 0.45 else None,
        "pair": [rng.random() < 0.5, _rint(rng, 8, True)],
        "kind": _rkind(rng),
        "map": dict((_rstr(rng), _rint(rng, 64)) for _ in range(rng.choice([0, 1, 3]))),
        "unit": None,
        "ch": rng.choice(["a", "Z", "\"", "\\", "é", "→", "𝄞", "\n", "0"]),
        "w": _rint(rng, 32),
    }


def gen_value(rng, ptype):
    if ptype == "u64":
        return _rint(rng, 64)
    if ptype == "str":
        return _rstr(rng)
    if ptype == "rec":
        return _rrec(rng)
    if ptype == "vec":
        return [_rrec(rng, 2) for _ in range(rng.choice([0, 1, 2, 3]))]
    if ptype == "optu":
        return None if rng.random() < 0.4 else _rint(rng, 64)
    if ptype == "tup":
        return [_rint(rng, 32, True), _rstr(rng), [rng.choice([None, True, False]) for _ in range(rng.choice([0, 1, 3]))]]
    raise ValueError(ptype)


def gen_case(rng, cid):
    ptype = rng.choice(PTYPES)
    flavour = rng.choice(["arc", "opt"])
    if ptype == "optu":
        flavour = "arc"       # Option<Arc<Option<_>>> is ambiguous in JSON: outside the round-trip hypothesis
    strategy = rng.choice(STRATEGIES)
    npool = rng.choice([1, 2, 3, 4, 5])
    pool = [gen_value(rng, ptype) for _ in range(npool)]
    if npool > 1 and rng.random() < 0.3:
        pool[-1] = pool[0]     # equal values in distinct objects
    init = rng.randrange(npool)
    if flavour == "opt" and rng.random() < 0.3:
        init = None
    ops = []
    held = 0
    for _ in range(rng.choice([0, 1, 2, 3, 4, 6, 8, 12])):
        r = rng.random()
        if r < 0.40:
            ops.append(["new", rng.randrange(npool)])
        elif r < 0.55 and flavour == "opt":
            ops.append(["null"])
        elif r < 0.65:
            ops.append(["same"])
        elif r < 0.75:
            ops.append(["loaddrop"])
        elif r < 0.90:
            n = rng.choice([1, 1, 2, 8, 9])        # 8 held guards exhaust the fast slots: serialize loads through the fallback
            for _ in range(n):
                ops.append(["hold"]); held += 1
        elif held:
            ops.append(["release"]); held -= 1
    return {"id": cid, "ptype": ptype, "flavour": flavour, "strategy": strategy, "pool": pool, "init": init, "ops": ops}


def gen_de_case(rng, cid):
    """Deserialization from arbitrary text: the container must fail exactly when the plain
    pointer type fails, and otherwise hold an equal value by one single reference."""
    ptype = rng.choice(PTYPES)
    flavour = rng.choice(["arc", "opt"])
    if ptype == "optu":
        flavour = "arc"
    text = json.dumps(gen_value(rng, ptype), ensure_ascii=rng.random() < 0.5)
    r = rng.random()
    if r < 0.15:
        text = "null"
    elif r < 0.3:
        text = text[: rng.randrange(len(text) + 1)]                  # truncated
    elif r < 0.4:
        text = json.dumps(gen_value(rng, rng.choice(PTYPES)))       # some other type's value
    elif r < 0.45:
        text = text + rng.choice([" ", "x", ",", "]"])
    return {"id": cid, "kind": "de", "ptype": ptype, "flavour": flavour, "strategy": rng.choice(STRATEGIES), "text": text}


# ---------------------------------------------------------------- model side
def model_term(case):
    fl = "FArc" if case["flavour"] == "arc" else "FOpt"
    nobj = (0 if case["init"] is None else 1) + sum(1 for o in case["ops"] if o[0] == "new")
    ops = []
    for o in case["ops"]:
        if o[0] == "new":
            ops.append("StoreNew N %d" % o[1])
        elif o[0] == "null":
            ops.append("StoreNull N")
        elif o[0] == "same":
            ops.append("StoreSame N")
        else:  # loaddrop, hold, release: no effect on what the container holds (hold/release exist only in the harness)
            ops.append("LoadDrop N")
    init = "None" if case["init"] is None else "(Some %d)" % case["init"]
    return "serde_case %s %d %s %s" % (fl, nobj, init, sx.coq_list(ops)), nobj


HEADER = "From Coq Require Import NArith List. Import ListNotations.\nFrom Seq Require Import SerdeModel.\nOpen Scope N_scope.\n"


def expected_ser(enc, res):
    """the model's symbolic tokens resolved against the harness's reference serializations"""
    if enc == 0:
        return None
    if enc == 1:
        return res.get("refnone")
    k = (enc - 2) // 2
    refs = res.get("refs", [])
    return refs[k] if k < len(refs) else None


def compare_case(case, res, rows, nobj):
    """returns (list of model/impl disagreements, list of property-oracle failures)"""
    dis, orc = [], []
    if "error" in res:
        return ["harness error: %s" % res["error"]], []
    steps = res.get("steps", [])
    if len(steps) != len(rows):
        return ["%d observations from the implementation, %d from the model" % (len(steps), len(rows))], []
    # independent oracle: the plain variable of the property statement
    cur = case["init"]
    curs = [cur]
    for o in case["ops"]:
        if o[0] == "new":
            cur = o[1]
        elif o[0] == "null":
            cur = None
        curs.append(cur)
    for i, (st, row) in enumerate(zip(steps, rows)):
        where = "observation %d (after %s)" % (i, "construction" if i == 0 else case["ops"][i - 1])
        want = res["refnone"] if curs[i] is None else res["refs"][curs[i]]
        if st["ser"] != want:
            orc.append("%s: container serializes as %s but its current pointer (pool value %s) as %s" % (where, json.dumps(st["ser"])[:300], curs[i], json.dumps(want)[:300]))
        if not (st["counts_before"] == st["counts"] == st["counts_after"]):
            orc.append("%s: strong counts changed by serializing/deserializing: %s -> %s -> %s" % (where, st["counts_before"], st["counts"], st["counts_after"]))
        d = st["de"]
        if not d.get("ok"):
            orc.append("%s: deserializing the container from its own serialization fails: %s" % (where, d.get("err")))
        else:
            if curs[i] is None:
                if not d["null"]:
                    orc.append("%s: round trip of None yields a value" % where)
            else:
                if d["null"] or curs[i] not in d["eq"]:
                    orc.append("%s: round trip yields a different value: %s" % (where, json.dumps(d["plain"])[:300]))
                if d["count"] != 1:
                    orc.append("%s: the deserialized container's value has strong count %s (expected exactly 1)" % (where, d["count"]))
            if d["reser"] != st["ser"]:
                orc.append("%s: the deserialized container serializes differently: %s" % (where, json.dumps(d["reser"])[:300]))
        # model vs implementation
        enc, counts, rt = row[0], row[1:1 + nobj], row[1 + nobj:]
        exp = expected_ser(enc, res)
        if exp != st["ser"]:
            dis.append("%s: model says tokens %s = %s, implementation %s" % (where, enc, json.dumps(exp)[:200], json.dumps(st["ser"])[:200]))
        if st["held"] == 0:
            ic = st["counts"] + [0] * (nobj - len(st["counts"]))
            if ic != counts:
                dis.append("%s: strong counts model %s implementation %s" % (where, counts, ic))
        if bool(rt[0]) != bool(d.get("ok")):
            dis.append("%s: round-trip deserialization model ok=%s implementation ok=%s" % (where, rt[0], d.get("ok")))
        elif d.get("ok"):
            if rt[1] == 0:
                if not d["null"]:
                    dis.append("%s: model deserializes None, implementation a value" % where)
            else:
                if d["null"] or (rt[1] - 1) not in d["eq"] or d["count"] != rt[2]:
                    dis.append("%s: model deserializes pool value %d with count %d, implementation eq=%s count=%s" % (where, rt[1] - 1, rt[2], d.get("eq"), d.get("count")))
            if expected_ser(rt[3], res) != d["reser"]:
                dis.append("%s: re-serialization after the round trip differs from the model" % where)
    if any(c != 0 for c in res.get("final_counts", [])):
        orc.append("after dropping the container some object is still referenced (leak): final strong counts %s" % res["final_counts"])
    return dis, orc


def compare_de(case, res):
    """Deserialization from arbitrary text (C20_de: fails exactly when the pointer type fails;
    equal value, fresh object, count 1)."""
    if "error" in res:
        return ["harness error: %s" % res["error"]], []
    d = res["de"]
    orc = []
    if d["plain_ok"] != d["cont_ok"]:
        orc.append("deserializing %r: plain pointer ok=%s, container ok=%s" % (case["text"][:200], d["plain_ok"], d["cont_ok"]))
    elif d["plain_ok"]:
        if not d["same_value"] or d["plain"] != d["cont"]:
            orc.append("deserializing %r: the container holds %s, the plain pointer %s" % (case["text"][:200], json.dumps(d["cont"])[:200], json.dumps(d["plain"])[:200]))
        if d["count"] != (-1 if d["null"] else 1):
            orc.append("deserializing %r: strong count of the container's value is %s (expected exactly 1)" % (case["text"][:200], d["count"]))
    return [], orc


# ---------------------------------------------------------------- run
def _run_cases(cases, workdir, tag):
    os.makedirs(workdir, exist_ok=True)
    cpath = os.path.join(workdir, "%s.cases" % tag)
    with open(cpath, "w") as f:
        for c in cases:
            f.write(json.dumps(c) + "\n")
    rc, results, err = sx.run_harness("serde", cpath)
    return rc, results, err


def run(pid, cfg, tier, seed, workdir, already_broken):
    t0 = time.time()
    rng = random.Random(seed * 1000003 + 20)
    n_cases = 320 if tier == "quick" else 34000
    n_de = 200 if tier == "quick" else 8000
    cases = [gen_case(rng, i) for i in range(n_cases)]
    de_cases = [gen_de_case(rng, n_cases + i) for i in range(n_de)]
    broken, findings = [], []

    # the value being serialized stays protected for the whole serialization (serialize = load().serialize()):
    # the pointee's Serialize impl replaces the container's value in the middle of its own serialization
    try:
        pr = subprocess.run([sx.exe(), "reentrant"], stdout=subprocess.PIPE, stderr=subprocess.STDOUT, timeout=120)
        rtxt, rrc = pr.stdout.decode(errors="replace"), pr.returncode
    except (subprocess.TimeoutExpired, OSError) as ex:
        rtxt, rrc = repr(ex), -9
    if rrc != 0 or "REENTRANT-OK" not in rtxt:
        findings.append({"message": "C20 fails on the implementation: serializing a container is not load().serialize(): " + rtxt.strip()[-400:], "cls": None,
                         "replay": {"case": "cd /verif/harness/seqx && cargo build --offline && target/debug/seqx reentrant", "impl_result": rtxt.splitlines()[-10:]}})

    # "for every strategy that can be default-constructed": the lock-based strategy takes its reference under the lock
    try:
        pr = subprocess.run([sx.exe(), "rwrace"], stdout=subprocess.PIPE, stderr=subprocess.STDOUT, timeout=120)
        wtxt, wrc = pr.stdout.decode(errors="replace"), pr.returncode
    except (subprocess.TimeoutExpired, OSError) as ex:
        wtxt, wrc = repr(ex), -9
    if wrc != 0 or "RWRACE-OK" not in wtxt:
        findings.append({"message": "C20 fails on the implementation for the RwLock strategy (a container serializes through load()): " + wtxt.strip()[-400:], "cls": None,
                         "replay": {"case": "cd /verif/harness/seqx && cargo build --offline && target/debug/seqx rwrace", "impl_result": wtxt.splitlines()[-10:]}})

    rc, results, err = _run_cases(cases + de_cases, workdir, "serde")
    if len(results) != len(cases) + len(de_cases):
        broken.append("harness seqx serde failed (exit %s, %d of %d result lines): %s" % (rc, len(results), len(cases) + len(de_cases), err[-300:]))
        results = results + [{"error": "no result"}] * (len(cases) + len(de_cases) - len(results))
    terms, nobjs = [], []
    for c in cases:
        t, n = model_term(c)
        terms.append(t); nobjs.append(n)
    rows, problem = sx.eval_model(HEADER, terms, os.path.join(workdir, "model"))
    if problem:
        broken.append("the Coq model could not be evaluated on the generated cases: " + problem)
        rows = [None] * len(cases)

    agree = 0
    n_obs = 0
    n_values = 0
    first_dis = None
    distinct = set()
    dist = {"ptype": {}, "flavour": {}, "strategy": {}, "ops": {}, "fallback_serialize": 0, "none_serialized": 0}
    for c, res, row, nobj in zip(cases, results[:len(cases)], rows, nobjs):
        n_values += len(c["pool"])
        for k in ("ptype", "flavour", "strategy"):
            dist[k][c[k]] = dist[k].get(c[k], 0) + 1
        for o in c["ops"]:
            dist["ops"][o[0]] = dist["ops"].get(o[0], 0) + 1
        if row is None:
            continue
        dis, orc = compare_case(c, res, row, nobj)
        n_obs += len(row)
        for st in res.get("steps", []):
            if st.get("held", 0) >= 8 and c["strategy"] == "default":
                dist["fallback_serialize"] += 1
            if st.get("ser", {}).get("tok") == "None":
                dist["none_serialized"] += 1
        if not dis and not orc:
            agree += 1
            if any(o[0] in ("new", "null") for o in c["ops"]):
                distinct.add(hashlib.sha1(json.dumps([c["ptype"], c["flavour"], c["strategy"], c["pool"], c["init"], c["ops"]], sort_keys=True).encode()).hexdigest())
        if dis and first_dis is None:
            first_dis = (c, dis)
        for m in orc[:1]:
            if len(findings) < 3:
                findings.append({"message": "C20 fails on the implementation: " + m, "cls": None,
                                 "replay": {"case": c, "impl_result": _trim(res), "model_rows": row, "oracle_failures": orc[:5], "model_disagreements": dis[:5]}})
    de_ok = 0
    de_valid = 0
    for c, res in zip(de_cases, results[len(cases):]):
        dis, orc = compare_de(c, res)
        if dis:
            broken.append(dis[0])
        if not orc and not dis:
            de_ok += 1
            if res.get("de", {}).get("plain_ok"):
                de_valid += 1
        for m in orc[:1]:
            if len(findings) < 3:
                findings.append({"message": "C20 fails on the implementation: " + m, "cls": None, "replay": {"case": c, "impl_result": res}})
    if first_dis:
        c, dis = first_dis
        broken.append("model Seq/SerdeModel.v and implementation disagree on case %s (%s/%s/%s): %s" % (c["id"], c["ptype"], c["flavour"], c["strategy"], dis[0][:500]))
        if not findings:
            # the disagreement is itself a concrete input; report it as such when the oracle is silent
            pass
    total = len(cases) + len(de_cases)
    sample_ids = [0, len(cases) // 2]
    samples = []
    for i in sample_ids:
        if i < len(cases) and rows[i] is not None:
            samples.append({"case": cases[i], "model_rows": rows[i], "impl_first_observation": _trim(results[i]).get("steps", [None])[0]})
    if de_cases:
        samples.append({"case": de_cases[0], "impl_result": results[len(cases)]})
    coverage = {
        "traces_validated_against_impl": agree + de_ok,
        "evaluations": total,
        "distinct_nontrivial": len(distinct),
        "rule": "one case = (pointee type, flavour, strategy, pool of generated pointee values, initial value, operation list) run on /repo and on the Coq model; every observation (after construction and after each operation) compares the container's serialization (serde_json text and recorded serde tokens) with the plain pointer's, all strong counts, and a JSON round trip (value, count = 1, re-serialization). distinct_nontrivial = distinct agreeing cases (sha1 of the whole case) with at least one store; de cases (deserialization from arbitrary/invalid text, container vs plain pointer) are counted in evaluations only",
        "pointee_values_generated": n_values,
        "observations_compared": n_obs,
        "de_cases": len(de_cases), "de_cases_agreeing": de_ok, "de_cases_with_valid_text": de_valid,
        "distribution": dist,
        "samples": samples,
    }
    summary = "%d/%d store-sequence cases and %d/%d deserialization cases agree with the model and the property oracle; %d pointee values, %d observations" % (
        agree, len(cases), de_ok, len(de_cases), n_values, n_obs)
    search = "%d cases x 3 strategies x 2 flavours x 6 pointee types, oracle = plain-pointer serialization of the last stored value, count after deserialize" % total
    return {"broken": broken, "findings": findings, "coverage": coverage, "summary": summary, "search_summary": search}


def _trim(res):
    r = dict(res)
    if "steps" in r:
        r["steps"] = r["steps"][:12]
    return r


def replay(pid, cfg, path, workdir):
    d = json.load(open(path))
    if "case" not in d:
        print(json.dumps(d, indent=1))
        return 0
    probs = build()
    if probs:
        print("\n".join(probs))
        return 2
    case = d["case"]
    if isinstance(case, str):
        # a finding of one of the stand-alone tests of harness/seqx: the replay is the command itself
        import subprocess as _sp
        print("replaying:", case)
        pr = _sp.run(case, shell=True, stdout=_sp.PIPE, stderr=_sp.STDOUT, timeout=1200)
        print(pr.stdout.decode(errors="replace")[-3000:])
        return 1 if pr.returncode != 0 else 0
    rc, results, err = _run_cases([case], workdir, "replay")
    print("case:", json.dumps(case))
    print("implementation:", json.dumps(results[0] if results else err)[:4000])
    if case.get("kind") == "de":
        dis, orc = compare_de(case, results[0])
        rows = None
    else:
        t, nobj = model_term(case)
        rows, problem = sx.eval_model(HEADER, [t], os.path.join(workdir, "model"))
        if problem:
            print("model evaluation failed:", problem)
            return 2
        print("model:", rows[0])
        dis, orc = compare_case(case, results[0], rows[0], nobj)
    for m in orc:
        print("PROPERTY FAILS:", m)
    for m in dis:
        print("MODEL/IMPL DISAGREE:", m)
    return 1 if (dis or orc) else 0
