"""Shared by the runners of C17 (access) and C20 (serde): builds harness/seqx against the
crate's current working tree, evaluates the Coq model on generated cases (cases.v with
`Eval vm_compute`, sharded, one coqc per shard) and parses what coqc prints."""
import os, re, json, shutil, subprocess, concurrent.futures
HERE = os.path.dirname(os.path.abspath(__file__))
ROOT = os.path.dirname(HERE)
import buildlib

REPO = os.environ.get("VERIF_REPO", "/repo")
CRATE = os.path.join(ROOT, "harness", "seqx")


def _target_dir():
    if os.path.realpath(REPO) == "/repo":
        return os.path.join(ROOT, "harness", "target", "seqx")
    return os.path.join(ROOT, "harness", "target", "seqx-" + re.sub(r"\W+", "_", os.path.realpath(REPO)))


def exe():
    return os.path.join(_target_dir(), "debug", "seqx")


def build_harness():
    """cargo build --offline of harness/seqx (path dependency on the crate; cargo rebuilds when
    the crate's sources changed).  VERIF_REPO=<dir> points the dependency at a scratch copy of
    the crate (mutation tests): the harness sources are copied to work/ with the path rewritten.
    Returns a list of problems."""
    crate = CRATE
    if os.path.realpath(REPO) != "/repo":
        crate = os.path.join(buildlib.WORK, "seqx-src-" + re.sub(r"\W+", "_", os.path.realpath(REPO)))
        shutil.rmtree(crate, ignore_errors=True)
        shutil.copytree(CRATE, crate, ignore=shutil.ignore_patterns("target"))
        p = os.path.join(crate, "Cargo.toml")
        t = open(p).read().replace('path = "/repo"', 'path = "%s"' % os.path.realpath(REPO))
        open(p, "w").write(t)
    try:
        rc, out = buildlib.sh(["timeout", "1500", "cargo", "build", "--offline", "--target-dir", _target_dir()], cwd=crate, timeout=1600)
    except subprocess.TimeoutExpired:
        rc, out = 124, "cargo build timed out"
    os.makedirs(buildlib.WORK, exist_ok=True)
    open(os.path.join(buildlib.WORK, "seqx_build.log"), "w").write(out)
    if rc != 0:
        errs = [l for l in out.splitlines() if l.startswith("error")]
        return ["harness/seqx does not build against %s (differential check cannot run): %s" % (REPO, " | ".join(errs[:4]) or out[-300:])]
    return []


def run_harness(sub, cases_path, timeout=1500):
    """Runs `seqx <sub> <cases>`; returns (rc, list of parsed JSON result lines, stderr text)."""
    try:
        p = subprocess.run(["timeout", str(timeout), exe(), sub, cases_path], stdout=subprocess.PIPE, stderr=subprocess.PIPE, timeout=timeout + 30)
    except subprocess.TimeoutExpired:
        return 124, [], "timeout"
    res = []
    for l in p.stdout.decode(errors="replace").splitlines():
        l = l.strip()
        if not l:
            continue
        try:
            res.append(json.loads(l))
        except ValueError:
            res.append({"error": "unparsable harness line: " + l[:200]})
    return p.returncode, res, p.stderr.decode(errors="replace")[-2000:]


def _coq_args():
    args = []
    for l in open(os.path.join(buildlib.COQ, "_CoqProject")).read().splitlines():
        w = l.split()
        if w and w[0] in ("-Q", "-R"):
            args += [w[0], os.path.join(buildlib.COQ, w[1]), w[2]]
    return args


_BLOCK = re.compile(r"^\s*=\s*(.*?)\n\s*:\s*list \(list N\)", re.S | re.M)


def _eval_shard(args):
    idx, header, terms, workdir = args
    vfile = os.path.join(workdir, "cases_%d.v" % idx)
    with open(vfile, "w") as f:
        f.write(header + "\n")
        for t in terms:
            f.write("Eval vm_compute in (%s).\n" % t)
    try:
        p = subprocess.run(["timeout", "1200", "coqc", "-noglob"] + _coq_args() + [vfile], stdout=subprocess.PIPE, stderr=subprocess.STDOUT, timeout=1300)
    except subprocess.TimeoutExpired:
        return idx, None, "coqc timed out on " + vfile
    out = p.stdout.decode(errors="replace")
    if p.returncode != 0:
        return idx, None, "coqc failed on %s: %s" % (vfile, out[-500:])
    rows = []
    for m in _BLOCK.finditer(out):
        txt = m.group(1).replace("%N", "").replace(";", ",")
        rows.append(json.loads(re.sub(r"\s+", " ", txt)))
    if len(rows) != len(terms):
        return idx, None, "coqc printed %d results for %d cases in %s" % (len(rows), len(terms), vfile)
    return idx, rows, None


def eval_model(header, terms, workdir, shard=400):
    """terms: Coq terms of type list (list N). Returns (list of results (python lists) or None, problem)."""
    os.makedirs(workdir, exist_ok=True)
    jobs = [(i // shard, header, terms[i:i + shard], workdir) for i in range(0, len(terms), shard)]
    results = {}
    with concurrent.futures.ThreadPoolExecutor(max_workers=min(12, max(1, len(jobs)))) as ex:
        for idx, rows, err in ex.map(_eval_shard, jobs):
            if err:
                return None, err
            results[idx] = rows
    out = []
    for i in sorted(results):
        out += results[i]
    return out, None


def coq_list(xs):
    return "[" + "; ".join(xs) + "]"
