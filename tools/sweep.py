#!/usr/bin/env python3
"""Preemption-bounded sweep: for a program, every victim thread V and every pause point p
(V runs p steps, then the other threads run to completion in every order, then V
finishes) is executed on the real crate and on the model; oracles run on every trace.
This is the targeted search for a failing input (never a proof)."""
import os, sys, itertools, hashlib
from concurrent.futures import ThreadPoolExecutor
HERE = os.path.dirname(os.path.abspath(__file__))
sys.path.insert(0, HERE)
import corr, trace as tracemod


def scripts_for(nthreads, maxp):
    for v in range(nthreads):
        others = [t for t in range(nthreads) if t != v]
        orders = list(itertools.permutations(others))[:2]
        for order in orders:
            for p in range(0, maxp + 1):
                yield v, p, "script:%dx%d,%s,%dx0" % (v, p, ",".join("%dx0" % u for u in order), v) if p else \
                    "script:%s,%dx0" % (",".join("%dx0" % u for u in order), v)


def freeze_sweep(prog_path, workdir, maxp=40, maxq=60, jobs=16):
    """Thread V runs p steps, thread U runs q steps and is then suspended for ever (with every
    other thread); V must finish its current operation running alone (C08/C09)."""
    os.makedirs(workdir, exist_ok=True)
    prog = tracemod.parse_program(open(prog_path).read())
    n = len(prog["threads"])
    name = os.path.splitext(os.path.basename(prog_path))[0]
    jobs_list = []
    for v in range(n):
        for u in range(n):
            if u == v:
                continue
            for p in range(0, maxp, 1):
                for q in range(1, maxq, 1):
                    sc = ("script:%dx%d,%dx%d;solo=%d" % (v, p, u, q, v)) if p else ("script:%dx%d;solo=%d" % (u, q, v))
                    base = os.path.join(workdir, "%s-fz-%s" % (name, hashlib.sha1(sc.encode()).hexdigest()[:8]))
                    jobs_list.append((prog_path, 0, sc, base))
    def one(j):
        return corr.run_program(j[0], j[1], j[2], j[3], family="corpus")
    with ThreadPoolExecutor(max_workers=jobs) as ex:
        return list(ex.map(one, jobs_list))


def sweep(prog_path, workdir, maxp=120, jobs=16, two_level=False, three_level=False):
    os.makedirs(workdir, exist_ok=True)
    prog = tracemod.parse_program(open(prog_path).read())
    n = len(prog["threads"])
    name = os.path.splitext(os.path.basename(prog_path))[0]
    jobs_list = []
    for v, p, sc in scripts_for(n, maxp):
        base = os.path.join(workdir, "%s-v%d-p%d-%s" % (name, v, p, hashlib.sha1(sc.encode()).hexdigest()[:6]))
        jobs_list.append((prog_path, 0, sc, base))
    if two_level and n >= 2:
        # V runs p steps, U runs q steps, V runs to completion, then the rest
        for v in range(n):
            for u in range(n):
                if u == v:
                    continue
                for p in range(1, min(maxp, 40), 2):
                    for q in range(1, min(maxp, 40), 3):
                        sc = "script:%dx%d,%dx%d,%dx0" % (v, p, u, q, v)
                        base = os.path.join(workdir, "%s-2l-%s" % (name, hashlib.sha1(sc.encode()).hexdigest()[:8]))
                        jobs_list.append((prog_path, 0, sc, base))
    if three_level and n >= 2:
        # V runs p steps, U runs q steps, V runs r (few) steps, U runs to completion, V finishes
        for v in range(n):
            for u in range(n):
                if u == v:
                    continue
                for p in range(1, min(maxp, 44)):
                    for q in range(1, min(maxp, 44), 2):
                        for r in (1, 2, 3):
                            sc = "script:%dx%d,%dx%d,%dx%d,%dx0,%dx0" % (v, p, u, q, v, r, u, v)
                            base = os.path.join(workdir, "%s-3l-%s" % (name, hashlib.sha1(sc.encode()).hexdigest()[:8]))
                            jobs_list.append((prog_path, 0, sc, base))
    def one(j):
        return corr.run_program(j[0], j[1], j[2], j[3], family="corpus")
    with ThreadPoolExecutor(max_workers=jobs) as ex:
        results = list(ex.map(one, jobs_list))
    return results


def grid_sweep(grid_path, workdir, tier="quick", jobs=16):
    """Schedules from a template with integer parameters (corpus/grids/*.grid): minimised
    shapes of failing schedules found earlier, widened so that they survive small changes
    in the number of steps of an operation."""
    os.makedirs(workdir, exist_ok=True)
    prog_path = grid_path[:-5] + ".prog"
    name = os.path.splitext(os.path.basename(prog_path))[0]
    tmpl, ranges = None, {}
    for l in open(grid_path).read().splitlines():
        w = l.split()
        if not w or w[0].startswith("#"):
            continue
        if w[0] == "template":
            tmpl = w[1]
        elif w[0] == tier or (w[0] == "quick" and tier not in ranges):
            ranges[w[0]] = {kv.split("=")[0]: kv.split("=")[1] for kv in w[1:]}
    rg = ranges.get(tier) or ranges["quick"]
    keys = sorted(rg)
    spans = []
    for k in keys:
        lo, hi = rg[k].split("..")
        spans.append(range(int(lo), int(hi) + 1))
    jobs_list = []
    for vals in itertools.product(*spans):
        sc = tmpl.format(**dict(zip(keys, vals)))
        base = os.path.join(workdir, "%s-g-%s" % (name, hashlib.sha1(sc.encode()).hexdigest()[:8]))
        jobs_list.append((prog_path, 0, sc, base))
    def one(j):
        return corr.run_program(j[0], j[1], j[2], j[3], family="corpus")
    with ThreadPoolExecutor(max_workers=jobs) as ex:
        return list(ex.map(one, jobs_list))


def grids_for(pid, root):
    import glob
    out = []
    for g in sorted(glob.glob(os.path.join(root, "corpus/grids/*.grid"))):
        for l in open(g).read().splitlines():
            w = l.split()
            if w and w[0] == "props" and pid in w[1:]:
                out.append(g)
    return out


if __name__ == "__main__":
    import glob
    paths = sys.argv[1:] or sorted(glob.glob(os.path.join(os.path.dirname(HERE), "corpus/scenarios/*.prog")))
    allr = []
    for p in paths:
        rs = sweep(p, os.path.join(os.path.dirname(HERE), "work/sweep"))
        s = corr.summarize(rs)
        print("%-40s runs %4d ok %4d diverged %3d failed %d distinct %4d findings %d helped %d" % (
            os.path.basename(p), s["runs"], s["ok"], len(s["diverged"]), len(s["failed"]), len(s["digests"]),
            len(s["findings"]), s["stats"].get("helped", 0)))
        for f in s["findings"][:3]:
            print("   FINDING", f)
        for r in s["diverged"][:2]:
            print("   DIVERGED", r["base"], r["divergence"])
        for r in s["failed"][:2]:
            print("   FAILED", r["status"], r["base"], r["impl_exit"], r["stderr"][-200:])
        allr += rs
