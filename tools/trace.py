"""Parsing of harness programs and traces, and the oracles evaluated on implementation
traces.  The oracles are the *search for a failing input*; they never stand in for a theorem.
Each oracle returns a list of (property_id, message) findings for one trace.
"""
import re


def parse_program(text):
    prog = {"fast": 1, "inits": [], "threads": [], "after": {}, "peak": None}
    for line in text.splitlines():
        line = line.strip()
        if line.startswith("# peak"):
            prog["peak"] = int(line.split()[2])
        if not line or line.startswith("#"):
            continue
        if line.startswith("config"):
            for kv in line.split()[1:]:
                k, v = kv.split("=")
                prog[k] = int(v)
        elif line.startswith("init"):
            prog["inits"] = [int(x) for x in line.split()[1:]]
        elif line.startswith("thread"):
            head, body = line.split(":", 1)
            hw = head.split()
            t = int(hw[1])
            if len(hw) >= 4 and hw[2] == "after":
                prog["after"][t] = int(hw[3])
            cmds = [c.split() for c in body.split(";") if c.strip()]
            prog["threads"].append(cmds)
    return prog


class Ev:
    __slots__ = ("i", "tid", "kind", "f")

    def __init__(self, i, tid, kind, f):
        self.i, self.tid, self.kind, self.f = i, tid, kind, f


def parse_trace(lines):
    evs = []
    last_tid = None
    for i, l in enumerate(lines):
        w = l.split()
        if not w:
            continue
        if w[0] == ".":
            evs.append(Ev(i, last_tid, w[1], w[2:]))
        elif w[0] == "#":
            evs.append(Ev(i, last_tid, "#" + w[1], w[2:]))
        else:
            last_tid = int(w[0])
            evs.append(Ev(i, last_tid, w[1], w[2:]))
    return evs


LOAD_CMDS = ("load", "loadfull", "cas", "rcu", "cachenew", "cacheload")


def analyse(prog, lines):
    """Runs all oracles on one implementation trace. Returns (findings, metrics)."""
    findings = []
    evs = parse_trace(lines)
    nthreads = len(prog["threads"])
    ncont = len(prog["inits"])
    # object identities over time
    oid_at = {}          # address -> oid of the live object there (or None)
    next_init_oid = 0
    seen = {}
    for a in prog["inits"]:
        if a != 0 and a not in seen:
            seen[a] = next_init_oid
            next_init_oid += 1
    oid_at.update(seen)
    destroyed = set()
    hist = {c: [(prog["inits"][c], oid_at.get(prog["inits"][c]))] for c in range(ncont)}  # (addr, oid)
    hist_pos_at_cmd = {}     # (tid, k) -> {c: index into hist at invocation}
    cur_cmd = {}             # tid -> k
    steps_in_cmd = {}        # (tid,k) -> number of scheduling steps
    nodeget_steps = {}       # (tid,k) -> steps spent in Node::get / cooldown (excluded from the C08 bound)
    writes_by_cmd = {}       # (tid,k) -> list of (c, old, new)
    handle_val = {}          # handle -> (kind, addr, oid)
    cache_idx = {}           # cache handle -> (container, lower bound of the index of the value it holds)
    completed_idx = {}       # container -> index of the latest write whose call has returned
    fresh_bound = {}         # (tid, k) -> completed_idx at the start of the command
    rets = {}
    # happens-before views (for runs with stale reads): per location the modification order with the view each
    # write releases, per thread the newest write of each location that happens-before its next step
    hb_hist = {}             # loc -> list of [value, released view]
    hb_view = {}             # tid -> {loc: index}
    view_at_cmd = {}         # (tid, k) -> view of the thread when the command started
    stale_in_cmd = set()     # (tid, k): the command read a storage with a stale value
    ACQ = ("Acquire", "AcqRel", "SeqCst")
    REL = ("Release", "AcqRel", "SeqCst")
    complete = not any(e.kind in ("DEADLOCK", "LIMIT", "REPLAY-DIVERGED", "SOLO-DONE", "SOLO-LIMIT", "SOLO-BLOCKED") for e in evs)
    max_load_steps = 0
    for e in evs:
        t = e.tid
        if e.kind == "FAULT":
            findings.append(("C01", "count or pointee touched after destruction: %s (trace line %d)" % (" ".join(e.f), e.i + 1)))
            if e.f and e.f[0] == "DeadDec":
                findings.append(("C02", "double release: %s (trace line %d)" % (" ".join(e.f), e.i + 1)))
            elif e.f and e.f[0] == "DeadInc":
                findings.append(("C02", "a value was destroyed while a guard or handle that still counts as an owner existed (its count reached zero early): %s (trace line %d)" % (" ".join(e.f), e.i + 1)))
            findings.append(("C10", "a guard's value was destroyed while the guard existed: %s (trace line %d)" % (" ".join(e.f), e.i + 1)))
        elif e.kind == "PANIC":
            findings.append(("C13", "operation panicked: %s (trace line %d)" % (" ".join(e.f), e.i + 1)))
        elif e.kind in ("SOLO-LIMIT", "SOLO-BLOCKED"):
            v = int(e.f[1])
            k = cur_cmd.get(v)
            cmd = prog["threads"][v][k] if k is not None and k < len(prog["threads"][v]) else ["?"]
            msg = "thread %d running alone (all others suspended) does not finish `%s`: %s" % (v, " ".join(cmd), " ".join(e.f))
            findings.append(("C09", msg))
            if cmd[0] in ("load", "loadfull"):
                findings.append(("C08", msg))
        elif e.kind == "HARNESS-ERROR":
            findings.append(("HARNESS", " ".join(e.f)))
        elif e.kind == "ALLOC":
            a, oid = int(e.f[0]), int(e.f[1])
            oid_at[a] = oid
            steps_in_cmd[(t, cur_cmd.get(t))] = steps_in_cmd.get((t, cur_cmd.get(t)), 0) + 1
        elif e.kind == "DESTROY":
            a, oid = int(e.f[0]), int(e.f[1])
            if oid in destroyed:
                findings.append(("C02", "object %d destroyed twice" % oid))
            destroyed.add(oid)
            oid_at[a] = None
        elif e.kind == "CMD":
            k = int(e.f[0])
            cur_cmd[t] = k
            hist_pos_at_cmd[(t, k)] = {c: len(hist[c]) - 1 for c in hist}
            fresh_bound[(t, k)] = dict(completed_idx)
            view_at_cmd[(t, k)] = dict(hb_view.get(t, {}))
            steps_in_cmd[(t, k)] = 0
            nodeget_steps[(t, k)] = 0
        elif e.kind == "ACC":
            k = cur_cmd.get(t)
            steps_in_cmd[(t, k)] = steps_in_cmd.get((t, k), 0) + 1
            loc, op, old, new, ok = e.f[0], e.f[1], e.f[4], e.f[5], e.f[6]
            # views: which write this access reads / appends, what it acquires and releases
            hh = hb_hist.setdefault(loc, [[old, {}]])
            tv = hb_view.setdefault(t, {})
            hlast = len(hh) - 1
            if op == "load" or (op in ("cas", "casw") and ok != "1"):
                oo = e.f[2] if op == "load" else e.f[3]
                if old == hh[hlast][0]:
                    ri = hlast
                else:
                    cand = [j for j in range(tv.get(loc, 0), len(hh)) if hh[j][0] == old]
                    if cand:
                        ri = cand[0]
                    else:
                        # the first read of the fast path is answered with arbitrary older values (the code does not trust
                        # it, Stale.v proves that any value is harmless): no write to name, the view stays
                        ri = tv.get(loc, 0)
                    if loc.startswith("S") and not loc.startswith("SL"):
                        stale_in_cmd.add((t, k))
                tv[loc] = max(tv.get(loc, 0), ri)
                if oo in ACQ:
                    for kk, vv in hh[ri][1].items():
                        if tv.get(kk, 0) < vv:
                            tv[kk] = vv
            else:
                rmw = op != "store"
                if rmw and e.f[2] in ACQ:
                    for kk, vv in hh[hlast][1].items():
                        if tv.get(kk, 0) < vv:
                            tv[kk] = vv
                tv[loc] = len(hh)
                mv = dict(hh[hlast][1]) if rmw else {}      # a read-modify-write continues the release sequence
                if e.f[2] in REL:
                    for kk, vv in tv.items():
                        if mv.get(kk, 0) < vv:
                            mv[kk] = vv
                hh.append([new, mv])
            if loc == "HEAD" or loc.startswith("IU") and op in ("cas", "swap") or \
               (loc.startswith("IU") and op == "load" and e.f[2] == "Acquire") or \
               (loc.startswith("WR") and op == "load"):
                nodeget_steps[(t, k)] = nodeget_steps.get((t, k), 0) + 1
            if loc.startswith("S") and not loc.startswith("SL") and op in ("swap", "cas", "casw") and ok == "1":
                c = int(loc[1:])
                newa = int(new)
                hist[c].append((newa, oid_at.get(newa) if newa else None))
                writes_by_cmd.setdefault((t, k), []).append((c, int(old), newa))
        elif e.kind == "RC":
            k = cur_cmd.get(t)
            steps_in_cmd[(t, k)] = steps_in_cmd.get((t, k), 0) + 1
        elif e.kind == "RET":
            k = int(e.f[0])
            if t is None or t >= nthreads or k >= len(prog["threads"][t]):
                continue
            cmd = prog["threads"][t][k]
            name = cmd[0]
            kind = e.f[1]
            addr = None
            if len(e.f) > 2 and e.f[2] != "?":
                addr = int(e.f[2])
            rets[(t, k)] = (kind, addr)
            if name == "join":
                tv = hb_view.setdefault(t, {})
                for kk, vv in hb_view.get(int(cmd[1]), {}).items():
                    if tv.get(kk, 0) < vv:
                        tv[kk] = vv
            for (wc, wold, wnew) in writes_by_cmd.get((t, k), []):
                # the write of this (now returned) call is "completed"
                for j in range(len(hist[wc]) - 1, 0, -1):
                    if hist[wc][j][0] == wnew:
                        completed_idx[wc] = max(completed_idx.get(wc, 0), j)
                        break
            # C16: a cache returns a value of its container, never older than what it returned before,
            # and at least as new as any store that had completed before the call
            if name == "cachenew":
                cache_idx[int(cmd[2])] = (int(cmd[1]), hist_pos_at_cmd[(t, k)][int(cmd[1])])
            if name == "cacheload" and addr is not None and int(cmd[1]) in cache_idx:
                cc, last = cache_idx[int(cmd[1])]
                oid = oid_at.get(addr) if addr else None
                if (t, k) in stale_in_cmd:
                    # the revalidating read was stale: freshness is owed only to what happens-before the call
                    lo = max(last, view_at_cmd.get((t, k), {}).get("S%d" % cc, 0))
                else:
                    lo = max(last, fresh_bound.get((t, k), {}).get(cc, 0))
                js = [j for j in range(len(hist[cc])) if hist[cc][j] == (addr, oid)]
                if not js:
                    findings.append(("C16", "thread %d cmd %d (%s) returned (%d, object %s) which was never stored in container %d" % (t, k, " ".join(cmd), addr, oid, cc)))
                elif not [j for j in js if j >= last]:
                    findings.append(("C16", "thread %d cmd %d (%s) went backwards: returned write #%s of container %d after having returned write #%d" % (t, k, " ".join(cmd), js, cc, last)))
                elif not [j for j in js if j >= lo]:
                    findings.append(("C16", "thread %d cmd %d (%s) returned write #%s of container %d although write #%d had completed before the call%s" % (t, k, " ".join(cmd), js, cc, lo, " and happens-before it (stale revalidation)" if (t, k) in stale_in_cmd else "")))
                else:
                    cache_idx[int(cmd[1])] = (cc, min(j for j in js if j >= lo))
            # C03/C12: loads return a value stored in this container within the call's interval
            if name in ("load", "loadfull", "cas", "rcu") and addr is not None:
                c = int(cmd[1])
                start = hist_pos_at_cmd[(t, k)][c]
                window = hist[c][start:]
                oid = oid_at.get(addr) if addr else None
                if addr != 0 and oid is None:
                    findings.append(("C01", "thread %d cmd %d (%s) returned address %d whose object is already destroyed" % (t, k, " ".join(cmd), addr)))
                if name == "rcu" or (name == "cas"):
                    pass
                if (addr, oid) not in window:
                    anywhere = any((addr, oid) in hist[c2] for c2 in hist)
                    pid = "C03"
                    msg = "thread %d cmd %d (%s) returned (%d, object %s) which was not the stored value of container %d at any instant of the call (window %s)" % (
                        t, k, " ".join(cmd), addr, oid, c, window[:6])
                    findings.append((pid, msg))
                    if (addr, oid) not in hist[c] and anywhere:
                        findings.append(("C12", "thread %d cmd %d (%s): value of another container returned" % (t, k, " ".join(cmd))))
            # C08: bounded number of own steps for loads
            if name in ("load", "loadfull"):
                st = steps_in_cmd.get((t, k), 0) - nodeget_steps.get((t, k), 0)
                max_load_steps = max(max_load_steps, st)
                bound = 28 if name == "load" else 31
                if st > bound:
                    findings.append(("C08", "thread %d cmd %d (%s) took %d own steps (bound %d: Progress.K_load/K_load_full)" % (t, k, " ".join(cmd), st, bound)))
            # C04: swap returns the value it replaced
            if name == "swap" and addr is not None:
                ws = writes_by_cmd.get((t, k), [])
                if len(ws) != 1 or ws[0][1] != addr:
                    findings.append(("C04", "thread %d cmd %d (%s): returned %s but its exchange replaced %s" % (t, k, " ".join(cmd), addr, ws)))
            if name == "store":
                ws = writes_by_cmd.get((t, k), [])
                if len(ws) != 1:
                    findings.append(("C04", "thread %d cmd %d (%s): %d writes" % (t, k, " ".join(cmd), len(ws))))
            if name == "cas" and addr is not None:
                curh = cmd[2]
                cur = 0 if curh == "-" else handle_val.get(int(curh), (None, None, None))[1]
                ws = writes_by_cmd.get((t, k), [])
                if cur is not None:
                    if addr == cur:
                        pass  # success or "observed equal then lost": decided by the writes below
                    if addr != cur and ws:
                        findings.append(("C05", "thread %d cmd %d (%s): reported failure (returned %d != current %d) but wrote %s" % (t, k, " ".join(cmd), addr, cur, ws)))
                    if len(ws) > 1:
                        findings.append(("C05", "thread %d cmd %d (%s): more than one write %s" % (t, k, " ".join(cmd), ws)))
                    if ws and ws[0][1] != cur:
                        findings.append(("C05", "thread %d cmd %d (%s): replaced %d which is not current %d" % (t, k, " ".join(cmd), ws[0][1], cur)))
                    if addr == cur and not ws:
                        findings.append(("C05", "thread %d cmd %d (%s): returned current (%d) but did not store new" % (t, k, " ".join(cmd), cur)))
                        findings.append(("C04", "thread %d cmd %d (%s): compare_and_swap reported success (returned current %d) without a write: the reported writes do not form a chain" % (t, k, " ".join(cmd), cur)))
            if name == "rcu" and kind == "P":
                ws = writes_by_cmd.get((t, k), [])
                if ws:
                    findings.append(("C18", "thread %d cmd %d (%s): the closure panicked but the call wrote %s" % (t, k, " ".join(cmd), ws)))
            if name == "rcu" and addr is not None:
                ws = writes_by_cmd.get((t, k), [])
                if len(ws) != 1 or ws[0][1] != addr:
                    findings.append(("C06", "thread %d cmd %d (%s): returned %s, writes %s" % (t, k, " ".join(cmd), addr, ws)))
            # handle bookkeeping
            dst = None
            if name in ("new", "load", "loadfull", "cinto"):
                dst = int(cmd[-1])
            elif name in ("clone", "ginto", "swap", "cas", "rcu"):
                dst = int(cmd[-1])
            if dst is not None and addr is not None:
                handle_val[dst] = (kind, addr, oid_at.get(addr) if addr else None)
            if name == "move":
                handle_val[int(cmd[2])] = handle_val.get(int(cmd[1]), (None, None, None))
            # C10: a guard denotes the same live object from creation to its end
            if name in ("drop", "ginto", "clone") or (name == "cas" and cmd[2] != "-"):
                h = int(cmd[1]) if name != "cas" else int(cmd[2])
                hv = handle_val.get(h)
                if hv and hv[0] == "G" and hv[1]:
                    if name == "ginto" and addr is not None and addr != hv[1]:
                        findings.append(("C10", "guard %d denoted %d at creation but into_inner gave %d" % (h, hv[1], addr)))
    # C11: a node is never re-claimed while a writer is walking it (the writer read the node's control
    # word and has not moved on to another node or finished its operation)
    import re as _re
    own = {}            # tid -> node it holds
    inside = {}         # tid -> node whose control word it read as a writer (not its own)
    pending_claim = {}  # tid -> node taken out of cooldown, writers not yet checked
    for e in evs:
        if e.kind == "RET" or e.kind == "EXIT":
            inside.pop(e.tid, None)
            continue
        if e.kind != "ACC" or len(e.f) < 7:
            continue
        loc, op, old, new, ok = e.f[0], e.f[1], e.f[4], e.f[5], e.f[6]
        m = _re.match(r"(IU|CT|WR|AD|OF|SL)(\d+)", loc)
        t = e.tid
        if loc == "HEAD" and op in ("cas", "casw") and ok == "1":
            own[t] = int(new) - 1
            continue
        if not m:
            continue
        kind, w = m.group(1), int(m.group(2))
        if kind == "IU" and op == "cas" and ok == "1" and old == "2" and new == "1":
            pending_claim[t] = w
        elif kind == "IU" and op == "cas" and ok == "1" and old == "0":
            own[t] = w
        elif kind == "IU" and op == "store" and new == "2":
            pending_claim.pop(t, None)
        elif kind == "IU" and op == "swap" and new == "2":
            if own.get(t) == w:
                own.pop(t, None)
        elif kind == "WR" and op == "load" and pending_claim.get(t) == w:
            if old == "0":
                own[t] = w
                pending_claim.pop(t, None)
                for t2, w2 in inside.items():
                    if w2 == w and t2 != t:
                        findings.append(("C11", "thread %d claimed node %d out of cooldown while thread %d, a writer that had read the node's control word, was still walking it (trace line %d)" % (t, w, t2, e.i + 1)))
        if kind == "CT" and op == "load" and own.get(t) != w:
            inside[t] = w
        elif t in inside and w != inside[t] and w != own.get(t):
            inside.pop(t, None)
        elif t in inside and kind == "SL" and loc.endswith(".8") and w == inside[t]:
            inside.pop(t, None)      # the helping slot is the last thing a walk touches in a node
    # quiescent end state: the count equation of C02
    fin = [e for e in evs if e.kind == "FINAL"]
    offers = {}
    destructor_panic = any(e.kind == "DESTRUCTOR-PANIC" for e in evs)
    # which commands were running when a destructor panicked (the thread that did the last decrement)
    panic_cmds = set()
    removed_in_cmd = {}
    d6_removed = set()
    cur_cmd = {}
    for e in evs:
        if e.kind == "CMD" and e.tid is not None:
            cur_cmd[e.tid] = int(e.f[0])
        elif e.kind == "ACC" and e.tid is not None and e.f[0].startswith("S") and not e.f[0].startswith("SL") \
                and e.f[1] in ("swap", "cas", "casw") and e.f[6] == "1":
            removed_in_cmd.setdefault((e.tid, cur_cmd.get(e.tid)), []).append(int(e.f[4]))
        elif e.kind == "DESTRUCTOR-PANIC" and e.tid is not None:
            try:
                panic_cmds.add(prog["threads"][e.tid][cur_cmd.get(e.tid, 0)][0])
            except (IndexError, KeyError):
                panic_cmds.add("?")
            # the values the panicking command had removed from containers before the panic: the walk it was in
            # (Debt::pay_all) is on behalf of the last of them
            d6_removed.update(removed_in_cmd.get((e.tid, cur_cmd.get(e.tid)), [])[-1:])
    # known finding D6 is about WRITERS: the panic unwinds out of the walk of Debt::pay_all that follows the exchange
    # of swap/store/compare_and_swap/rcu, and what leaks is the reference of the value that exchange removed
    panic_in_writer_only = bool(panic_cmds) and panic_cmds <= {"store", "swap", "cas", "rcu", "cinto", "cdrop"}
    if destructor_panic:
        # C18: whatever else goes wrong in a run with a panicking destructor is a C18 finding too
        for f0 in list(findings):
            if f0[0] in ("C01", "C03", "C12", "C13") or (f0[0] == "C02" and "has count" not in f0[1]):
                findings.append(("C18", "in a run where a pointee destructor panicked inside an operation: " + f0[1]))
    metrics = {"max_load_steps": max_load_steps, "complete": complete}
    all_exited = complete and sum(1 for e in evs if e.kind == "EXIT") == nthreads
    if fin and all_exited:
        stores, owned, guards, slots, cells, caches = {}, {}, {}, {}, {}, 0
        for e in fin:
            f = e.f
            if f[0] == "store":
                a = int(f[2]); stores[a] = stores.get(a, 0) + 1
            elif f[0] == "cell":
                cells[int(f[1])] = int(f[2])
            elif f[0] == "handle":
                if f[2] == "O":
                    a = int(f[3]); owned[a] = owned.get(a, 0) + 1
                elif f[2] == "G":
                    a = int(f[3]); guards[a] = guards.get(a, 0) + 1
                else:
                    caches += 1
            elif f[0] == "slot":
                a = int(f[3]); slots[a] = slots.get(a, 0) + 1
            elif f[0] == "node":
                if f[3] != "0":
                    findings.append(("C02", "node %s has %s writers registered at quiescence" % (f[1], f[3])))
                if f[4] != "0":
                    findings.append(("C13", "node %s control word left at %s at quiescence" % (f[1], f[4])))
                if len(f) > 5:
                    offers.setdefault(f[5], []).append(f[1])
        # every node owns its own hand-over envelope when nothing is in progress (EnvInv: an envelope is in one place)
        for off, ns in offers.items():
            if len(ns) > 1:
                for pid_ in ("C12", "C03", "C02"):
                    findings.append((pid_, "nodes %s offer the same hand-over envelope (%s) at quiescence: two writers helping at the same time would overwrite each other's replacement, a reader would be handed another container's value" % (",".join(ns), off)))
        for a, n in slots.items():
            if n > guards.get(a, 0):
                findings.append(("C02", "borrow slot still holds %d although only %d guards on it exist" % (a, guards.get(a, 0))))
        if caches == 0:
            addrs = set(cells) | set(stores) | set(owned) | set(guards)
            addrs.discard(0)
            for a in addrs:
                expect = stores.get(a, 0) + owned.get(a, 0) + guards.get(a, 0) - slots.get(a, 0)
                have = cells.get(a)
                if have is None:
                    findings.append(("C01", "address %d is referenced (stores %d, owned %d, guards %d) but its object is destroyed" % (
                        a, stores.get(a, 0), owned.get(a, 0), guards.get(a, 0))))
                elif have != expect:
                    findings.append(("C02", "object at %d has count %d at quiescence, owners say %d (stores %d + owned %d + guards %d - unpaid slots %d)" % (
                        a, have, expect, stores.get(a, 0), owned.get(a, 0), guards.get(a, 0), slots.get(a, 0))))
                    if destructor_panic and have == expect + 1 and panic_in_writer_only and a in d6_removed:
                        # known finding D6: a destructor panicking inside a writer's slot walk leaks the removed value's reference
                        findings.append(("C18", "after a pointee destructor panicked inside an operation the count of the value at %d is %d although its owners say %d: the reference of the value the writer removed is leaked" % (a, have, expect), "D6-destructor-panic-leak"))
                    elif destructor_panic:
                        findings.append(("C18", "after a pointee destructor panicked inside %s the count of the value at %d is %d, owners say %d" % (
                            "/".join(sorted(panic_cmds)) or "an operation", a, have, expect)))
        metrics["quiescent_checked"] = True
        nnodes = sum(1 for e in fin if e.f[0] == "node")
        metrics["nodes"] = nnodes
        if prog.get("peak") is not None and nnodes > prog["peak"]:
            # with more than one thread alive a writer inside a cooling node legitimately blocks
            # its reuse (known finding D7); strictly sequential churn must reuse the node
            cls = "D7-node-bound-writer-inside" if prog["peak"] > 1 else None
            findings.append(("C11", "%d nodes exist although at most %d threads were alive at a time (threads join their predecessors)" % (nnodes, prog["peak"]), cls))
        for e in fin:
            if e.f[0] == "node" and e.f[2] == "1":
                findings.append(("C11", "node %s is still marked in use after all threads have exited" % e.f[1]))
    return findings, metrics
