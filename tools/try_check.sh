#!/bin/bash
# usage: tools/try_check.sh <patch.diff> <ID>...   apply, run bin/check for each id, revert
patch=$1; shift
cd /verif
git -C /repo apply "$patch" || { echo "patch does not apply"; exit 9; }
for id in "$@"; do bin/check $id 2>&1 | grep -E "^VIOLATION|^KNOWN|^check|no longer checks|^  " | cut -c1-420 | head -8; done
git -C /repo checkout -- .
git -C /repo status --short | head -3
