#!/bin/bash
# usage: tools/try_mutant.sh <patch.diff> [corr args...]  -- applies the patch to /repo, rebuilds the harness, runs the correspondence, reverts.
set -u
patch=$1; shift
cd /verif
git -C /repo apply "$patch" || { echo "patch does not apply"; exit 9; }
bin/build harness; rc=$?
if [ $rc = 0 ]; then python3 tools/corr.py "$@" 2>&1 | tail -25; else echo "BUILD FAILED rc=$rc"; fi
git -C /repo checkout -- . 
git -C /repo status --short | head -3
