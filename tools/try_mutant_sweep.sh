#!/bin/bash
set -u
patch=$1; shift
cd /verif
git -C /repo apply "$patch" || { echo "patch does not apply"; exit 9; }
bin/build harness; rc=$?
if [ $rc = 0 ]; then rm -rf work/sweep; python3 tools/sweep.py "$@" 2>&1 | grep -E "FINDING|findings [1-9]" | head -20; else echo "BUILD FAILED rc=$rc"; fi
git -C /repo checkout -- .
